"""Entry point (kept outside the package so no module is loaded twice)."""
import os
import sys

HERE = os.path.dirname(os.path.abspath(__file__))


def _bootstrap():
    src = os.environ.get("CLIKIT_SRC", "/repo/src")
    want_hash = os.environ.get("PYTHONHASHSEED")
    if want_hash is None or "PYTHONPYCACHEPREFIX" not in os.environ:
        env = dict(os.environ)
        env.setdefault("PYTHONHASHSEED", "0")
        # byte-code is never read from or written to /repo: every module of the code under test is
        # compiled from the current working tree on each invocation.
        env["PYTHONPYCACHEPREFIX"] = os.path.join(HERE, ".no-pycache")
        env["PYTHONDONTWRITEBYTECODE"] = "1"
        env["CLIKIT_VERIF"] = "1"
        os.execve(sys.executable, [sys.executable, "-B"] + sys.argv, env)
    sys.path[:] = [p for p in sys.path if os.path.realpath(p or ".") != os.path.realpath(src)]
    sys.path.insert(0, src)
    sys.path.insert(0, HERE)
    os.environ.pop("COLUMNS", None)
    os.environ.pop("LINES", None)


if __name__ == "__main__":
    _bootstrap()
    from dsim.runner import main
    sys.stdout.reconfigure(errors="backslashreplace")
    rc = main(sys.argv[1:])
    sys.stdout.flush()
    os._exit(rc) if rc else sys.exit(0)
