"""Deterministic thread scheduler: real OS threads, one runnable at a time (baton passing).

Every simulated thread owns a semaphore; only the thread holding the baton executes Python code of
the system under test, all others are parked.  At every *scheduling point* (stream write, sleep,
event/lock/thread operation, optionally every source line of selected files) the running thread
calls ``yield_point``: the scheduler computes the runnable set and picks the next thread - from the
recorded choice list on replay, from the seeded strategy otherwise - and records the choice.  The
OS never decides who runs, so one choice list is one exactly repeatable execution.

Time is the shared ``VirtualClock``: ``sleep`` parks the caller until its wake-up time, and when
nothing is runnable the clock jumps to the earliest wake-up.  Every scheduling step costs a seeded
quantum so a thread that never blocks cannot freeze simulated time for the others.

``ShimThreading`` exposes Thread / Event / Lock / RLock / current_thread with the interface of the
``threading`` module and is swapped into the module under test.
"""
import sys
import threading as _real


class Abort(BaseException):
    """Raised inside simulated threads when the run is being torn down (step cap, deadlock)."""


class Deadlock(Exception):
    pass


RUNNABLE, SLEEPING, JOINING, WAITING, LOCKING, DONE, NEW = "runnable", "sleeping", "joining", "waiting", "locking", "done", "new"
COND = "cond"  # blocked until a predicate holds (semaphore value, condition notification) or a timeout passes


class NotSimulated(BaseException):
    """The code under test uses a part of ``threading`` the scheduler does not model: a harness
    limit (exit 2), never a verdict about the code."""


class SimThreadState(object):
    def __init__(self, name):
        self.name = name
        self.sem = _real.Semaphore(0)
        self.state = NEW
        self.wake_us = None
        self.wait_obj = None
        self.real = None
        self.exc = None
        self.steps = 0


class Scheduler(object):
    def __init__(self, clock, log, choices=None, rng=None, strategy="random", preempt_p=0.2,
                 quantum_us=0, max_steps=20000, trace_files=()):
        self.clock = clock
        self.log = log
        self.replay = list(choices) if choices is not None else None
        self.replay_pos = 0
        self.rng = rng
        self.strategy = strategy
        self.preempt_p = preempt_p
        self.quantum_us = quantum_us
        self.max_steps = max_steps
        self.trace_files = tuple(trace_files)
        self.threads = {}      # name -> SimThreadState
        self.order = []        # creation order (deterministic iteration)
        self.current = None
        self.choices = []      # recorded decisions (thread names), only where > 1 runnable
        self.choice_sets = []  # runnable thread names at each recorded decision
        self.steps = 0
        self.switches = 0
        self.aborting = False
        self.abort_reason = None
        self.deadlocked = False
        self.points = {}       # kind -> count
        self.prio = {}         # PCT priorities
        self.change_points = set()
        self._tls = _real.local()
        main = SimThreadState("main")
        main.state = RUNNABLE
        main.real = _real.current_thread()
        self.threads["main"] = main
        self.order.append("main")
        self.current = main
        self._tls.me = main
        clock.sleeper = self.sleep

    # ------------------------------------------------------------------------------------
    def me(self):
        return getattr(self._tls, "me", None)

    def _runnable(self):
        now = self.clock.us
        out = []
        for name in self.order:
            t = self.threads[name]
            if t.state == RUNNABLE:
                out.append(t)
            elif t.state == SLEEPING and t.wake_us <= now:
                out.append(t)
            elif t.state == JOINING and t.wait_obj.state == DONE:
                out.append(t)
            elif t.state == WAITING and (t.wait_obj.flag or (t.wake_us is not None and t.wake_us <= now)):
                out.append(t)
            elif t.state == LOCKING and t.wait_obj.owner is None:
                out.append(t)
            elif t.state == COND and (t.wait_obj() or (t.wake_us is not None and t.wake_us <= now)):
                out.append(t)
        return out

    def _earliest_wake(self):
        w = [t.wake_us for t in self.threads.values()
             if t.state in (SLEEPING, WAITING, COND) and t.wake_us is not None]
        return min(w) if w else None

    def _pick(self, runnable, me):
        if len(runnable) == 1:
            return runnable[0]
        names = [t.name for t in runnable]
        self.choice_sets.append(names)
        if self.replay is not None:
            if self.replay_pos < len(self.replay):
                want = self.replay[self.replay_pos]
                self.replay_pos += 1
                if want in names:
                    self.choices.append(want)
                    return runnable[names.index(want)]
            # list exhausted (or stale after shrinking): keep running the current thread
            pick = me if (me is not None and me in runnable) else runnable[0]
            self.choices.append(pick.name)
            return pick
        r = self.rng
        if self.strategy == "sticky":
            if me is not None and me in runnable and r.random() >= self.preempt_p:
                pick = me
            else:
                others = [t for t in runnable if t is not me] or runnable
                pick = others[r.randrange(len(others))]
        elif self.strategy == "pct":
            if self.steps in self.change_points and me is not None:
                self.prio[me.name] = min(self.prio.values() or [0]) - 1
            for t in runnable:
                if t.name not in self.prio:
                    self.prio[t.name] = r.random()
            pick = max(runnable, key=lambda t: self.prio[t.name])
        else:
            pick = runnable[r.randrange(len(runnable))]
        self.choices.append(pick.name)
        return pick

    def _abort(self, reason):
        if not self.aborting:
            self.aborting = True
            self.abort_reason = reason
            self.log.add("abort", reason)
            self.log.frozen = True
        for t in self.threads.values():
            if t.state != DONE and t is not self.me():
                t.sem.release()
        raise Abort(reason)

    def yield_point(self, kind):
        """Called by the running thread.  May block it and run others; returns when this thread is
        chosen again."""
        me = self.me()
        if me is None:
            return  # a thread the simulator does not own (never happens in a harness run)
        if self.aborting:
            raise Abort(self.abort_reason)
        self.steps += 1
        me.steps += 1
        self.points[kind] = self.points.get(kind, 0) + 1
        if self.quantum_us:
            self.clock.advance_us(self.quantum_us)
        if self.steps > self.max_steps:
            self._abort("step_cap")
        while True:
            runnable = self._runnable()
            if runnable:
                break
            wake = self._earliest_wake()
            if wake is None:
                self.deadlocked = True
                self._abort("deadlock")
            if wake > self.clock.us:
                self.clock.us = wake
        nxt = self._pick(runnable, me if me.state != DONE else None)
        self._activate(nxt)
        if nxt is me:
            return
        self.switches += 1
        self.current = nxt
        self.log.actor = nxt.name
        nxt.sem.release()
        if me.state == DONE:
            return
        me.sem.acquire()
        self._tls.me = me
        if self.aborting:
            raise Abort(self.abort_reason)

    def _activate(self, t):
        """Resolve the blocking condition of the thread that was picked."""
        if t.state == SLEEPING:
            t.state, t.wake_us = RUNNABLE, None
        elif t.state == JOINING:
            t.state, t.wait_obj = RUNNABLE, None
        elif t.state == WAITING:
            t.state, t.wake_us = RUNNABLE, None  # wait_obj kept: wait() reads the flag
        elif t.state == LOCKING:
            t.wait_obj.owner = t
            t.wait_obj.count = 1
            t.state, t.wait_obj = RUNNABLE, None
        elif t.state == COND:
            t.state, t.wake_us, t.wait_obj = RUNNABLE, None, None

    # ---- blocking primitives -------------------------------------------------------------
    def sleep(self, seconds):
        me = self.me()
        if me is None:
            if seconds > 0:
                self.clock.advance(seconds)
            return
        us = max(0, int(round(seconds * 1e6)))
        me.state = SLEEPING
        me.wake_us = self.clock.us + us
        self.yield_point("sleep")

    def block_us(self, us, kind):
        """The running thread is busy for ``us`` of simulated time (slow write): others may run."""
        me = self.me()
        me.state = SLEEPING
        me.wake_us = self.clock.us + int(us)
        self.yield_point(kind)

    # ---- line-level pre-emption ----------------------------------------------------------
    def tracer(self):
        if not self.trace_files:
            return None
        files = self.trace_files
        sched = self

        def local(frame, event, arg):
            if event == "line":
                sched.yield_point("line")
            return local

        def glob(frame, event, arg):
            if event == "call" and frame.f_code.co_filename.endswith(files):
                return local
            return None

        return glob

    # ---- teardown ------------------------------------------------------------------------
    def shutdown(self):
        """Called by the harness (main thread) after the scenario: every simulated thread must be
        finished or is aborted; real threads are joined with a real timeout."""
        leftovers = [t for t in self.threads.values() if t.name != "main" and t.state != DONE]
        if leftovers:
            self.aborting = True
            self.abort_reason = self.abort_reason or "shutdown"
            for t in leftovers:
                t.sem.release()
        stuck = []
        for t in self.threads.values():
            if t.real is not None and t.name != "main":
                t.real.join(10.0)
                if t.real.is_alive():
                    stuck.append(t.name)
        self.clock.sleeper = None
        return [t.name for t in leftovers], stuck


class ShimThreading(object):
    """Stands in for the ``threading`` module inside the module under test."""

    def __init__(self, sched):
        s = self._sched = sched
        shim = self

        class Event(object):
            def __init__(self):
                self.flag = False

            def set(self):
                s.yield_point("event.set")
                self.flag = True
                s.log.add("event_set")

            def clear(self):
                s.yield_point("event.clear")
                self.flag = False

            def is_set(self):
                s.yield_point("event.is_set")
                return self.flag

            isSet = is_set

            def wait(self, timeout=None):
                me = s.me()
                if not self.flag:
                    me.state = WAITING
                    me.wait_obj = self
                    me.wake_us = None if timeout is None else s.clock.us + int(round(timeout * 1e6))
                s.yield_point("event.wait")
                me.wait_obj = None
                return self.flag

        class Lock(object):
            _reentrant = False

            def __init__(self):
                self.owner = None
                self.count = 0

            def acquire(self, blocking=True, timeout=-1):
                me = s.me()
                s.yield_point("lock.acquire")
                if self._reentrant and self.owner is me:
                    self.count += 1
                    return True
                if self.owner is None:
                    self.owner, self.count = me, 1
                    return True
                if not blocking:
                    return False
                me.state = LOCKING
                me.wait_obj = self
                s.yield_point("lock.block")
                return True

            def release(self):
                if self.owner is None:
                    raise RuntimeError("release unlocked lock")
                self.count -= 1
                if self.count <= 0:
                    self.owner, self.count = None, 0
                s.yield_point("lock.release")

            def locked(self):
                return self.owner is not None

            def __enter__(self):
                self.acquire()
                return self

            def __exit__(self, *a):
                self.release()

        class RLock(Lock):
            _reentrant = True

        class Thread(object):
            _n = [0]

            def __init__(self, group=None, target=None, name=None, args=(), kwargs=None, daemon=None):
                Thread._n[0] += 1
                self._target, self._args, self._kwargs = target, args, kwargs or {}
                self.name = name or "spin-%d" % Thread._n[0]
                self.daemon = daemon
                self._st = None

            def run(self):
                if self._target is not None:
                    self._target(*self._args, **self._kwargs)

            def start(self):
                if self._st is not None:
                    raise RuntimeError("threads can only be started once")
                st = SimThreadState(self.name if self.name not in s.threads else self.name + "'")
                self._st = st
                s.threads[st.name] = st
                s.order.append(st.name)
                tracer = s.tracer()

                def boot():
                    st.sem.acquire()
                    s._tls.me = st
                    try:
                        if s.aborting:
                            raise Abort(s.abort_reason)
                        if tracer is not None:
                            sys.settrace(tracer)
                        self.run()
                    except Abort:
                        pass
                    except BaseException as e:  # the thread's own failure is part of the history
                        st.exc = e
                        s.log.add("thread_died", st.name, type(e).__name__)
                    finally:
                        sys.settrace(None)
                        st.state = DONE
                        s.log.add("thread_exit", st.name)
                        if not s.aborting:
                            try:
                                s.yield_point("thread.exit")
                            except Abort:
                                pass

                st.real = _real.Thread(target=boot, name="dsim-" + st.name)
                st.real.daemon = True
                st.state = RUNNABLE
                st.real.start()
                s.log.add("thread_start", st.name)
                s.yield_point("thread.start")

            def join(self, timeout=None):
                if self._st is None:
                    raise RuntimeError("cannot join thread before it is started")
                me = s.me()
                if self._st.state != DONE:
                    me.state = JOINING
                    me.wait_obj = self._st
                s.yield_point("thread.join")

            def is_alive(self):
                s.yield_point("thread.is_alive")
                return self._st is not None and self._st.state != DONE

            isAlive = is_alive

        def block_until(pred, timeout, what):
            """Parks the calling thread until pred() holds or the (virtual) timeout passes."""
            me = s.me()
            if not pred():
                me.state = COND
                me.wait_obj = pred
                me.wake_us = None if timeout is None or timeout < 0 else s.clock.us + int(round(timeout * 1e6))
            s.yield_point(what)
            return pred()

        class Semaphore(object):
            def __init__(self, value=1):
                if value < 0:
                    raise ValueError("semaphore initial value must be >= 0")
                self.value = value

            def acquire(self, blocking=True, timeout=None):
                s.yield_point("semaphore.acquire")
                if self.value <= 0:
                    if not blocking:
                        return False
                    if not block_until(lambda: self.value > 0, timeout, "semaphore.block"):
                        return False
                self.value -= 1
                return True

            def release(self, n=1):
                self.value += n
                s.yield_point("semaphore.release")

            __enter__ = acquire

            def __exit__(self, *a):
                self.release()

        class BoundedSemaphore(Semaphore):
            def __init__(self, value=1):
                Semaphore.__init__(self, value)
                self.bound = value

            def release(self, n=1):
                if self.value + n > self.bound:
                    raise ValueError("Semaphore released too many times")
                Semaphore.release(self, n)

        class Condition(object):
            def __init__(self, lock=None):
                self.lock = lock if lock is not None else RLock()
                self.tickets = []   # one cell per waiter; notify() sets cells
                self.acquire, self.release = self.lock.acquire, self.lock.release

            def __enter__(self):
                return self.lock.__enter__()

            def __exit__(self, *a):
                return self.lock.__exit__(*a)

            def wait(self, timeout=None):
                me = s.me()
                if self.lock.owner is not me:
                    raise RuntimeError("cannot wait on un-acquired lock")
                cell = [False]
                self.tickets.append(cell)
                count = self.lock.count
                self.lock.owner, self.lock.count = None, 0
                got = block_until(lambda: cell[0], timeout, "condition.wait")
                if cell in self.tickets:
                    self.tickets.remove(cell)
                self.lock.acquire()
                self.lock.count = count
                return got

            def wait_for(self, predicate, timeout=None):
                end = None if timeout is None else s.clock.us + int(round(timeout * 1e6))
                result = predicate()
                while not result:
                    left = None if end is None else (end - s.clock.us) / 1e6
                    if left is not None and left <= 0:
                        break
                    self.wait(left)
                    result = predicate()
                return result

            def notify(self, n=1):
                for cell in self.tickets[:n]:
                    cell[0] = True
                del self.tickets[:n]
                s.yield_point("condition.notify")

            def notify_all(self):
                self.notify(len(self.tickets))

            notifyAll = notify_all

        Thread._n = [0]
        self.Event, self.Lock, self.RLock, self.Thread = Event, Lock, RLock, Thread
        self.Semaphore, self.BoundedSemaphore, self.Condition = Semaphore, BoundedSemaphore, Condition

    def current_thread(self):
        return self._sched.me()

    def main_thread(self):
        return self._sched.threads.get("main")

    def get_ident(self):
        return id(self._sched.me())

    def __getattr__(self, name):
        if name.startswith("__"):
            raise AttributeError(name)
        raise NotSimulated("threading.%s is not simulated by the scheduler" % name)
