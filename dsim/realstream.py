"""Real clikit stream classes in the simulated world.

``SimOutputStream`` / ``SimInputStream`` implement clikit's stream *interfaces*; the classes clikit
ships for real files (``StreamOutputStream``, ``StreamInputStream``, ``StringInputStream``) are then
out of the picture.  Here the seam is moved one layer down, to the file object:

* ``SimFile`` is a text file as the operating system would give it to the process: ``write`` only
  fills a buffer, ``flush`` delivers the buffer to the device (the event log and, if attached, the
  terminal emulator).  What was written but not flushed is *not visible* - the simulator's
  "late / lost write".  With ``write_through`` every ``write`` call reaches the device by itself, as
  on a console stream.  ``on_call`` runs at every ``write`` call of the file object: for threaded
  code this is where another thread may be scheduled.  ``encoding`` is whatever the scenario says.
* ``RealStreamOutput`` is clikit's own ``StreamOutputStream`` over a ``SimFile`` (only the tty probe is
  answered by the scenario, there is no file descriptor).
* ``CountingStreamInput`` is clikit's own ``StreamInputStream`` over an ``io.StringIO`` holding the
  user's script, with the read budget after end of input.
"""
import io

from clikit.io.input_stream.stream_input_stream import StreamInputStream
from clikit.io.output_stream.stream_output_stream import StreamOutputStream

from .streams import AskedForever, Runaway


class SimFile(object):
    def __init__(self, name, log, screen=None, encoding="utf-8", on_write=None, max_calls=50000,
                 write_through=False, on_call=None, strict=True, short_write=None, flush_fail_at=()):
        self.name = name
        self.log = log
        self.screen = screen
        self.encoding = encoding
        self.on_write = on_write
        self.after_write = None
        self.strict = strict
        self.short_write = short_write       # fault: f(string) -> number of characters this write() accepts
        self.short_writes = 0
        self.flush_fail_at = set(flush_fail_at)  # fault: these flush() calls are interrupted (EINTR); the
        self.n_flushes = 0                       # text stays in the buffer and goes out with the next flush
        self.faults_fired = 0
        self.write_through = write_through   # like a console stream: every write() reaches the device at once
        self.on_call = on_call               # called at every write() of the file object (a scheduling point)
        self.closed = False
        self.buffer = ""
        self.writes = []     # (seq, data) as delivered to the device
        self.n_calls = 0
        self.max_calls = max_calls

    def write(self, string):
        self.n_calls += 1
        if self.n_calls > self.max_calls:
            raise Runaway("more than %d writes to %s" % (self.max_calls, self.name))
        if self.closed:
            raise ValueError("I/O operation on closed file.")
        if self.encoding != "utf-8" and self.strict:
            string.encode(self.encoding)  # UnicodeEncodeError like a strict text stream
            # (strict=False: a stream opened with errors="replace" / "backslashreplace", as stderr is)
        if self.on_call is not None:
            self.on_call(self, string)
        if self.short_write is not None:
            n = self.short_write(string)
            if n < len(string):
                # a raw / non-blocking stream took only part of the text and says so
                self.short_writes += 1
                self.log.add("short_write", self.name, n, len(string))
                string = string[:n]
        self.buffer += string
        if self.write_through:
            self._deliver()
        return len(string)

    def flush(self):
        if self.closed:
            raise ValueError("I/O operation on closed file.")
        idx = self.n_flushes
        self.n_flushes += 1
        if idx in self.flush_fail_at:
            self.faults_fired += 1
            self.log.add("flush_fault", self.name, "EINTR")
            raise InterruptedError(4, "simulated: Interrupted system call")
        self._deliver()

    def _deliver(self):
        if not self.buffer:
            return
        data, self.buffer = self.buffer, ""
        if self.on_write is not None:
            self.on_write(self, data)
        ev = self.log.add("write", self.name, data)
        if ev is None:
            return
        self.writes.append((ev[0], data))
        if self.screen is not None:
            self.screen.feed(data)
        if self.after_write is not None:
            self.after_write(self, ev)

    def close(self):
        self.closed = True

    def data(self):
        """What the device has received (unflushed text is not part of it)."""
        return "".join(d for _, d in self.writes)


class RealStreamOutput(StreamOutputStream):
    """clikit's StreamOutputStream; only the terminal probe comes from the scenario."""

    def __init__(self, simfile, ansi):
        super(RealStreamOutput, self).__init__(simfile)
        self._ansi = ansi
        self.file = simfile
        self.faults_fired = 0

    def supports_ansi(self):
        return self._ansi

    @property
    def writes(self):
        return self.file.writes

    def data(self):
        return self.file.data()


class CountingStreamInput(StreamInputStream):
    """clikit's StreamInputStream over a StringIO; counts reads and enforces the EOF read budget."""

    def __init__(self, log, source, eof_budget=8):
        super(CountingStreamInput, self).__init__(source)
        self.log = log
        self.reads = 0
        self.reads_after_eof = 0
        self.eof_budget = eof_budget

    def read_line(self, length=None):
        self.reads += 1
        out = super(CountingStreamInput, self).read_line(length)
        if out == "":
            self.reads_after_eof += 1
            self.log.add("read_eof", self.reads_after_eof)
            if self.reads_after_eof > self.eof_budget:
                self.log.add("asked_forever")
                raise AskedForever()
        else:
            self.log.add("read", out)
        return out


def string_source(lines):
    return io.StringIO("".join(lines))


def append_to_source(source, lines):
    """More typed lines arrive on the same stream; the read position stays where it is."""
    pos = source.tell()
    source.seek(0, io.SEEK_END)
    source.write("".join(lines))
    source.seek(pos)


def unread_lines(source):
    """What a reader continuing on this stream has still to see."""
    pos = source.tell()
    rest = source.read()
    source.seek(pos)
    return rest.splitlines(True)


def counting(base):
    """A subclass of one of clikit's input stream classes that counts reads and enforces the budget
    of reads after end of input (``base`` does all the reading)."""

    class Counting(base):
        def dsim_init(self, log, eof_budget):
            self.log = log
            self.reads = 0
            self.reads_after_eof = 0
            self.eof_budget = eof_budget
            self.consumed = 0   # characters (bytes for a byte stream) handed to the reader so far
            return self

        def read_line(self, length=None):
            self.reads += 1
            out = base.read_line(self, length)
            if not out:
                self.reads_after_eof += 1
                self.log.add("read_eof", self.reads_after_eof)
                if self.reads_after_eof > self.eof_budget:
                    self.log.add("asked_forever")
                    raise AskedForever()
            else:
                self.consumed += len(out)
                self.log.add("read", out if isinstance(out, str) else out.decode("utf-8", "replace"))
            return out

    return Counting
