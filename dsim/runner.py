"""Batch runner: seeded search over scenarios on all cores, determinism audit, shrinking, replay
files, known-finding matching, evidence.

Exit codes: 0 held on everything explored (possibly with KNOWN-FINDING lines)
            1 unlisted violation(s): ``VIOLATION property=<id> replay=<path>``
            2 harness error (``HARNESS-ERROR ...``): watchdog, unknown escape sequence, replay or
              determinism mismatch.  A wall-clock kill never ends in 0.
"""
import faulthandler
import importlib
import json
import multiprocessing
import os
import subprocess
import sys
import time as _real_time
import traceback
from concurrent.futures import ProcessPoolExecutor

from . import HARNESS_VERSION, findings
from .harness import HarnessError, signature
from .seed import DEFAULT_SEED, Streams, digest, run_seed
from .shrink import Shrinker

VERIF = os.path.dirname(os.path.dirname(os.path.abspath(__file__)))
DIGEST_CAP = 3000000
N_CANDS = 24  # candidate runs kept per violation signature (lowest run indexes)
N_REPLAY_TRIES = 6  # ... of which at most this many go through minimisation and the fresh-interpreter replay
OUT = os.environ.get("DSIM_OUT") or VERIF  # evidence/ and replays/ go here (self-tests redirect it)
PROPS = {
    "C04": "c04_run_containment", "C05": "c05_parser_reuse", "C06": "c06_format_builder",
    "C09": "c09_global_switches", "C11": "c11_decoration_indent", "C12": "c12_dispatcher",
    "C15": "c15_sections", "C16": "c16_progress_bar", "C17": "c17_history_independence",
    "C18": "c18_questions", "C19": "c19_spinner", "C20": "c20_trace_render",
}


def load(prop):
    mod = importlib.import_module("dsim.props." + PROPS[prop])
    return mod


def check_code_under_test():
    src = os.path.realpath(os.environ.get("CLIKIT_SRC", "/repo/src"))
    import clikit
    here = os.path.realpath(clikit.__file__)
    if not here.startswith(src + os.sep):
        raise HarnessError("clikit imported from %s, expected under %s" % (here, src))
    return src


# --------------------------------------------------------------------------------------------
def make_scenarios(h, prop, tier, verif_seed, index):
    s = Streams(run_seed(verif_seed, prop, index))
    s.index = index  # lets a harness spread a finite table over the runs of a batch
    sc = h.gen(s, tier)
    sc["_run"] = {"index": index, "seed": s.seed, "variant": 0}
    out = [sc]
    sweep = getattr(h, "sweep", None)
    if sweep is not None:
        for k, v in enumerate(sweep(sc, tier)):
            v["_run"] = {"index": index, "seed": s.seed, "variant": k + 1}
            out.append(v)
    return out


class ScenarioTimeout(BaseException):
    """One scenario (milliseconds of work) has not returned within SCENARIO_WALL seconds."""


SCENARIO_WALL = int(os.environ.get("DSIM_SCENARIO_WALL") or 30)


_ALARM_FIRED = [False]


def _on_alarm(signum, frame):
    _ALARM_FIRED[0] = True
    raise ScenarioTimeout()


def execute(h, sc):
    # Every loop of the simulated world has its own cap (stream calls, reads after end of input,
    # scheduler steps, listener calls).  A loop in the code under test that touches none of them
    # would keep the worker busy until the batch watchdog and end the batch as a harness error; a
    # scenario that is this far beyond its budget is reported as a violation of its own instead.
    # (A wall-clock verdict of last resort: the replay hangs, and is cut, in the same way.)
    import signal
    from .harness import Result
    use_alarm = hasattr(signal, "setitimer") and __import__("threading").current_thread() is __import__("threading").main_thread()
    if use_alarm:
        old = signal.signal(signal.SIGALRM, _on_alarm)
        # (repeating: code under test that catches BaseException to clean up - joining a thread, say -
        # may block again after the first interruption)
        signal.setitimer(signal.ITIMER_REAL, SCENARIO_WALL, 3)
    _ALARM_FIRED[0] = False
    res = None
    try:
        res = h.execute(sc)
    except ScenarioTimeout:
        pass
    finally:
        if use_alarm:
            signal.setitimer(signal.ITIMER_REAL, 0)
            signal.signal(signal.SIGALRM, old)
    if _ALARM_FIRED[0] or res is None:
        # whatever the harness made of the interruption: one verdict, one signature
        res = Result()
        res.violate("hang", "execute", "the scenario did not finish within %d s of wall time (typical: milliseconds)" % SCENARIO_WALL)
        res.events = ["hang"]
    body = {k: v for k, v in sc.items() if k != "_run"}
    canon = json.dumps(body, sort_keys=True, default=str)
    res.digest = digest((canon, res.events, [signature(v) for v in res.violations]))
    return res


# Set by any worker that met a violation which no open known finding could explain (fork-shared).
# Once it is set and the batch is older than the soft deadline, the remaining runs are skipped: the
# verdict is already "violated", and code that makes every run slow (a dispatch that never ends, a
# prompt that never gives up - each stopped by its cap) must not push the batch into the watchdog.
_FOUND = multiprocessing.Value("i", 0)
SOFT_DEADLINE = {"quick": 100, "thorough": 2400}


# run indexes this process has executed so far, as [first, last] ranges in execution order: if a
# violation only shows after what ran before it (state kept by the code under test between
# scenarios), this history is what has to be replayed
_HISTORY = []


def _work(args):
    prop, tier, verif_seed, start, stop, audit_mod, wall, t_batch = args
    _HISTORY.append([start, start - 1])
    faulthandler.dump_traceback_later(wall, exit=True)
    try:
        open_sigs = set((e.get("oracle"), e.get("where")) for e in findings.load()
                        if e.get("property") == prop and e.get("status") == "open")
        h = load(prop)
        if hasattr(h, "setup"):
            h.setup()
        agg = {
            "evaluations": 0, "nontrivial": 0, "inconclusive": 0, "steps": 0, "sim_us": 0,
            "faults": {}, "probes": {}, "digests": set(), "states": set(), "samples": [],
            "violations": {}, "audit": {}, "errors": [], "n_violations": 0, "skipped": 0,
        }
        for i in range(start, stop):
            if _FOUND.value and _real_time.time() - t_batch > SOFT_DEADLINE[tier]:
                agg["skipped"] = stop - i
                break
            _HISTORY[-1][1] = i
            try:
                scs = make_scenarios(h, prop, tier, verif_seed, i)
            except Exception:
                agg["errors"].append((i, "gen", traceback.format_exc()))
                continue
            for sc in scs:
                try:
                    res = execute(h, sc)
                except Exception:
                    agg["errors"].append((i, "execute", traceback.format_exc()))
                    continue
                agg["evaluations"] += 1
                agg["steps"] += res.steps
                agg["sim_us"] += res.sim_us
                if res.inconclusive:
                    agg["inconclusive"] += 1
                if res.nontrivial:
                    agg["nontrivial"] += 1
                    agg["digests"].add(int(res.digest[:14], 16))
                for k, v in res.faults.items():
                    agg["faults"][k] = agg["faults"].get(k, 0) + v
                for k, v in res.probes.items():
                    agg["probes"][k] = agg["probes"].get(k, 0) + v
                agg["states"].update(res.states)
                if len(agg["samples"]) < 2 and res.nontrivial:
                    smp = dict(sc)
                    if res.observed:
                        smp["_observed"] = res.observed
                    agg["samples"].append(smp)
                if audit_mod and i % audit_mod == 0 and not any(v["oracle"] == "hang" for v in res.violations):
                    agg["audit"][(i, sc["_run"]["variant"])] = res.digest
                for v in res.violations:
                    agg["n_violations"] += 1
                    sig = signature(v)
                    if sig not in open_sigs and not _FOUND.value:
                        _FOUND.value = 1
                    cur = agg["violations"].get(sig)
                    if cur is None:
                        agg["violations"][sig] = {"cands": [(i, sc, v)], "count": 1,
                                                  "hist": [(i, sc["_run"]["variant"], [list(r) for r in _HISTORY])]}
                    else:
                        cur["count"] += 1
                        if len(cur["cands"]) < N_CANDS and cur["cands"][-1][0] != i:
                            cur["cands"].append((i, sc, v))
        return agg
    finally:
        faulthandler.cancel_dump_traceback_later()


def _merge(total, part):
    for k in ("evaluations", "nontrivial", "inconclusive", "steps", "sim_us", "n_violations", "skipped"):
        total[k] = total.get(k, 0) + part[k]
    for k in ("faults", "probes"):
        d = total.setdefault(k, {})
        for a, b in part[k].items():
            d[a] = d.get(a, 0) + b
    dg = total.setdefault("digests", set())
    if len(dg) < DIGEST_CAP:  # beyond the cap the count of distinct digests is a lower bound
        dg.update(part["digests"])
    else:
        total["digests_capped"] = True
    total.setdefault("states", set()).update(part["states"])
    total.setdefault("samples", []).extend(part["samples"])
    total.setdefault("audit", {}).update(part["audit"])
    total.setdefault("errors", []).extend(part["errors"])
    vs = total.setdefault("violations", {})
    for sig, rec in part["violations"].items():
        cur = vs.get(sig)
        if cur is None:
            vs[sig] = {"cands": list(rec["cands"]), "count": rec["count"], "hist": list(rec.get("hist", []))}
        else:
            cur["count"] += rec["count"]
            cur["hist"] = (cur.get("hist", []) + list(rec.get("hist", [])))[:4]
            cur["cands"] = sorted(cur["cands"] + rec["cands"], key=lambda c: c[0])[:N_CANDS]


# --------------------------------------------------------------------------------------------
def _fresh(args, hashseed, timeout):
    env = dict(os.environ)
    env["PYTHONHASHSEED"] = str(hashseed)
    env["DSIM_CHILD"] = "1"
    cmd = [sys.executable, "-B", os.path.join(VERIF, "dsim_main.py")] + args
    p = subprocess.run(cmd, cwd=VERIF, env=env, stdout=subprocess.PIPE, stderr=subprocess.PIPE,
                       timeout=timeout, universal_newlines=True)
    return p


def audit_digests(prop, tier, verif_seed, indexes):
    """Digests for the given run indexes, computed in this process (used by --audit child)."""
    h = load(prop)
    if hasattr(h, "setup"):
        h.setup()
    out = {}
    for i in indexes:
        for sc in make_scenarios(h, prop, tier, verif_seed, i):
            out["%d.%d" % (i, sc["_run"]["variant"])] = execute(h, sc).digest
    return out


def determinism_audit(prop, tier, verif_seed, worker_digests, n_fresh):
    """worker_digests: {(index, variant): digest} as computed inside the pool.
    Re-run (a) here in the parent, in reverse order (other batch position, other process),
    (b) in a fresh interpreter under another PYTHONHASHSEED."""
    keys = sorted(worker_digests)
    idx = sorted({k[0] for k in keys})
    mism = []
    local = audit_digests(prop, tier, verif_seed, list(reversed(idx)))
    for k in keys:
        if local.get("%d.%d" % k) != worker_digests[k]:
            mism.append(("in-process", k))
    fresh_idx = idx[:n_fresh]
    if fresh_idx:
        p = _fresh([prop, tier, "--audit", ",".join(map(str, fresh_idx)),
                    "--seed", str(verif_seed)], hashseed=4242, timeout=600)
        if p.returncode != 0:
            raise HarnessError("audit child failed: %s" % p.stderr[-2000:])
        fresh = json.loads(p.stdout.strip().splitlines()[-1])
        for k in keys:
            if k[0] in fresh_idx and fresh.get("%d.%d" % k) != worker_digests[k]:
                mism.append(("fresh-interpreter", k))
    return {"seeds_compared": len(idx), "fresh_interpreter_seeds": len(fresh_idx),
            "executions_compared": len(keys), "mismatches": len(mism),
            "mismatch_keys": [list(map(str, m)) for m in mism[:10]]}


# --------------------------------------------------------------------------------------------
def replay_path(prop, sig, seed):
    d = os.path.join(OUT, "replays", prop)
    os.makedirs(d, exist_ok=True)
    name = "%s-%s-%s.json" % (sig[0], "".join(c if c.isalnum() else "_" for c in sig[1])[:40],
                              seed)
    return os.path.join(d, name)


def write_replay(prop, tier, verif_seed, sc, v, res_digest, shrink_steps, minimised, history=None):
    doc = {
        "property": prop, "harness_version": HARNESS_VERSION, "verif_seed": verif_seed,
        "tier": tier, "run": sc.get("_run"), "scenario": {k: x for k, x in sc.items() if k != "_run"},
        "violation": v, "digest": res_digest, "minimised": minimised, "shrink_steps": shrink_steps,
    }
    if history is not None:
        # scenarios to execute first, in this order and in the same process
        doc["history"] = history
    path = replay_path(prop, signature(v), (sc.get("_run") or {}).get("seed", 0))
    with open(path, "w") as f:
        json.dump(doc, f, indent=1, sort_keys=True, default=str)
    return path


def do_replay(prop, path, quiet=False):
    """Execute a replay file.  Returns (reproduced, same_digest, violations)."""
    h = load(prop)
    if hasattr(h, "setup"):
        h.setup()
    with open(path) as f:
        doc = json.load(f)
    sc = doc["scenario"]
    for earlier in doc.get("history") or []:
        execute(h, earlier)
    res = execute(h, sc)
    want = (doc["violation"]["oracle"], doc["violation"]["where"])
    got = [v for v in res.violations if signature(v) == want]
    return bool(got), doc["digest"] is None or res.digest == doc["digest"], res.violations, res.digest


# --------------------------------------------------------------------------------------------
def write_evidence(prop, h, tier, verif_seed, total, wall, audit, known_hit, n_unlisted, runs,
                   workers):
    info = getattr(h, "INFO", {})
    samples = []
    for sc in total.get("samples", [])[:3]:
        samples.append(sc)
    if not samples:
        samples = [{"note": "no non-trivial run in this batch"}]
    hours = max(wall, 1e-9) / 3600.0
    cov = {
        "evaluations": total.get("evaluations", 0),
        "distinct_nontrivial": len(total.get("digests", ())),
        "rule": info.get("rule", "") + (" [distinct_nontrivial is a lower bound: digest set capped at %d]" % DIGEST_CAP
                                          if total.get("digests_capped") else "")
                + (" [%d runs skipped after the soft deadline: a violation had already been found]" % total["skipped"]
                   if total.get("skipped") else ""),
        "samples": samples,
        "seeded_runs": runs - total.get("skipped", 0),
        "seeds": {"verif_seed": verif_seed, "first_run_index": 0, "last_run_index": runs - 1},
        "runs_per_hour": int(total.get("evaluations", 0) / hours),
        "operations_executed": total.get("steps", 0),
        "simulated_time_s": round(total.get("sim_us", 0) / 1e6, 3),
        "fault_counts": dict(sorted(total.get("faults", {}).items())),
        "probes": dict(sorted(total.get("probes", {}).items())),
        "distinct_states": len(total.get("states", ())),
        "distinct_states_measure": info.get("states_measure", "n/a"),
        "nontrivial_runs": total.get("nontrivial", 0),
        "inconclusive_runs": total.get("inconclusive", 0),
        "components_real": info.get("components_real", []),
        "components_stubbed": info.get("components_stubbed", []),
        "determinism_audit": audit,
        "known_findings_hit": known_hit,
        "workers": workers,
        "exhaustive": False,
    }
    doc = {
        "property_id": prop, "tier": tier, "seed": int(verif_seed), "level": h.LEVEL,
        "coverage": cov, "assumptions": info.get("assumptions", []),
        "wall_s": round(wall, 2), "violations": n_unlisted,
    }
    d = os.path.join(OUT, "evidence")
    os.makedirs(d, exist_ok=True)
    tmp = os.path.join(d, prop + ".json.tmp")
    with open(tmp, "w") as f:
        json.dump(doc, f, indent=1, sort_keys=True, default=str)
    os.replace(tmp, os.path.join(d, prop + ".json"))


# --------------------------------------------------------------------------------------------
def _verify_in_child(prop, sc, sig):
    """Does the scenario, executed as the first and only one of a process, show the signature?"""
    h = load(prop)
    if hasattr(h, "setup"):
        h.setup()
    res = execute(h, sc)
    return any(signature(v) == tuple(sig) for v in res.violations)


def _run_history(h, scenarios, sig):
    """Executes the scenarios in order in this process; the LAST one must show the signature."""
    res = None
    for sc in scenarios:
        res = execute(h, sc)
    return res is not None and any(signature(v) == tuple(sig) for v in res.violations), res


def _verify_history_in_child(prop, scenarios, sig):
    h = load(prop)
    if hasattr(h, "setup"):
        h.setup()
    return _run_history(h, scenarios, sig)[0]


def _history_scenarios(h, prop, tier, verif_seed, ranges, last_index, last_variant):
    """The scenarios a worker executed, in order, up to and including (last_index, last_variant)."""
    out = []
    for a, b in ranges:
        for i in range(a, b + 1):
            for sc in make_scenarios(h, prop, tier, verif_seed, i):
                out.append(sc)
                if i == last_index and sc["_run"]["variant"] == last_variant:
                    return out
    return out


def _minimise_history(prop, scenarios, sig, budget=60):
    """ddmin over the scenarios BEFORE the last one (each test: a pristine child running the list)."""
    from . import zygote
    head, last = scenarios[:-1], scenarios[-1]
    tests = [0]

    def fails(hd):
        tests[0] += 1
        try:
            return zygote.reference("dsim.runner", "_verify_history_in_child", prop, hd + [last], list(sig))
        except RuntimeError:
            return False

    n = 2
    while len(head) >= 1 and tests[0] < budget:
        chunk = max(1, len(head) // n)
        reduced = False
        # keeping one chunk first (the state-setting scenario is usually a single one), then dropping one
        for i in range(0, len(head), chunk):
            if tests[0] >= budget:
                break
            if len(head) > chunk and fails(head[i:i + chunk]):
                head, n, reduced = head[i:i + chunk], 2, True
                break
        if not reduced:
            for i in range(0, len(head), chunk):
                if tests[0] >= budget:
                    break
                cand = head[:i] + head[i + chunk:]
                if fails(cand):
                    head, n, reduced = cand, max(2, n - 1), True
                    break
        if not reduced:
            if chunk == 1:
                break
            n = min(len(head), n * 2)
    return head + [last], tests[0]


def run_check(prop, tier, verif_seed, runs=None, workers=None):
    t0 = _real_time.time()
    check_code_under_test()
    h = load(prop)
    # a pristine helper process, forked before this one has executed a single scenario: candidates of
    # a violation are first tried there, each in a child of its own, so that a scenario which only
    # fails because of what its worker had run before (state kept by the code under test) is passed
    # over in favour of one that fails by itself
    from . import zygote
    zygote.ensure()
    if hasattr(h, "setup"):
        h.setup()
    if runs is None:
        runs = int(os.environ.get("DSIM_RUNS") or h.RUNS[tier])
    if workers is None:
        workers = int(os.environ.get("DSIM_WORKERS") or min(16, os.cpu_count() or 1))
    n_audit = {"quick": 24, "thorough": 200}[tier]
    audit_mod = max(1, runs // n_audit)
    n_fresh = {"quick": 8, "thorough": 64}[tier]
    wall = {"quick": 420, "thorough": 7200}[tier]

    chunk = max(1, min(2000, runs // (workers * 8) or 1))
    _FOUND.value = 0
    tasks = [(prop, tier, verif_seed, s, min(runs, s + chunk), audit_mod, wall, t0)
             for s in range(0, runs, chunk)]
    total = {}
    ctx = multiprocessing.get_context("fork")
    try:
        with ProcessPoolExecutor(max_workers=workers, mp_context=ctx) as ex:
            for part in ex.map(_work, tasks):
                _merge(total, part)
    except Exception as e:  # BrokenProcessPool (watchdog / crash) and anything else
        print("HARNESS-ERROR property=%s worker pool failed: %r" % (prop, e))
        return 2

    if total.get("errors"):
        i, phase, tb = total["errors"][0]
        print("HARNESS-ERROR property=%s %d harness exception(s); first at run %d in %s:\n%s"
              % (prop, len(total["errors"]), i, phase, tb))
        return 2

    try:
        audit = determinism_audit(prop, tier, verif_seed, total.get("audit", {}), n_fresh)
    except HarnessError as e:
        print("HARNESS-ERROR property=%s %s" % (prop, e))
        return 2
    # An audit mismatch on a tree that also shows verified violations is reported after them: code
    # under test that keeps process-global state (a cache keyed too coarsely, a shared singleton)
    # makes scenarios depend on their predecessors, and the violation - whose replay file must
    # still reproduce in a fresh interpreter - is the more useful verdict.
    audit_failed = bool(audit["mismatches"])

    # ---- violations: minimise the first of each signature, replay in a fresh interpreter ----
    entries = findings.load()
    known_hit, unlisted, unreproducible = [], [], []
    budget = {"quick": 500, "thorough": 1500}[tier]
    for sig in sorted(total.get("violations", {})):
        rec = total["violations"][sig]
        path = small = vv = None
        tries = 0
        for i, sc, v in rec["cands"]:
            if tries >= N_REPLAY_TRIES:
                break
            # the violation must reproduce as the only scenario of a pristine process ...
            try:
                if sig[0] != "hang" and not zygote.reference("dsim.runner", "_verify_in_child", prop, sc, list(sig)):
                    continue
            except RuntimeError:
                continue
            tries += 1
            # ... and here (another process than the worker that saw it) ...
            res0 = execute(h, sc)
            if not any(signature(x) == sig for x in res0.violations):
                continue
            sh = Shrinker(h, sig, budget=budget if sig[0] != "hang" else 0, execute=lambda s_: execute(h, s_))  # every candidate of a hang costs the full wall
            cand = sh.run(sc) if sig[0] != "hang" else sc
            res = execute(h, cand) if sig[0] != "hang" else res0
            cv = [x for x in res.violations if signature(x) == sig]
            # ... and its replay file must reproduce in a fresh interpreter; the minimised scenario
            # first, the scenario as generated as a fall-back (shrinking may lean on state that this
            # process accumulated if the code under test keeps state between operations)
            attempts = [(cand, cv, res.digest, sh.steps, True)] if cv else []
            attempts.append((sc, [x for x in res0.violations if signature(x) == sig], res0.digest, 0, False))
            for scn, vs_, dg, steps, minimised in attempts:
                pth = write_replay(prop, tier, verif_seed, scn, vs_[0], dg, steps, minimised)
                # (an oracle that compares this interpreter with one started under another hash seed is
                # relative to the hash seed of the run: its replay is verified under the same one)
                hs = int(os.environ.get("PYTHONHASHSEED") or 0) if sig[0] in getattr(h, "HASHSEED_SENSITIVE", ()) else 777
                p = _fresh([prop, "--replay", pth], hashseed=hs, timeout=600)
                if p.returncode == 1 and "REPRODUCED" in p.stdout:
                    path, small, vv = pth, scn, vs_
                    break
            if path is not None:
                break
        if path is None:
            # No scenario shows this signature by itself.  Does one show it after what its worker had
            # executed before it?  Then the code under test carries state from one scenario to the
            # next, and the replay file is that history (minimised), not a single scenario.
            for li, lv, ranges in rec.get("hist", [])[:2]:
                try:
                    hist = _history_scenarios(h, prop, tier, verif_seed, ranges, li, lv)
                    if not hist or len(hist) > 60000:
                        continue
                    if not zygote.reference("dsim.runner", "_verify_history_in_child", prop, hist, list(sig)):
                        continue
                    hist, steps = _minimise_history(prop, hist, sig)
                except RuntimeError:
                    continue
                ok_, res_ = True, None
                v_ = {"oracle": sig[0], "where": sig[1], "detail": "(shows only after the scenarios listed under 'history' ran in the same process)"}
                pth = write_replay(prop, tier, verif_seed, hist[-1], v_, None, steps, True,
                                   history=[{k: x for k, x in s_.items() if k != "_run"} for s_ in hist[:-1]])
                p = _fresh([prop, "--replay", pth], hashseed=777, timeout=900)
                if p.returncode == 1 and "REPRODUCED" in p.stdout:
                    for l_ in p.stdout.splitlines():
                        if l_.startswith("  violation oracle=%s where=%s " % sig):
                            v_["detail"] = "after %d earlier scenario(s) in the same process: %s" % (len(hist) - 1, l_.split(" detail=", 1)[-1])
                            break
                    path, small, vv = pth, hist[-1], [v_]
                    break
        if path is None:
            unreproducible.append((sig, rec["cands"][0][0]))
            continue
        facts = h.condition(small, vv[0]) if hasattr(h, "condition") else {}
        e = findings.match(prop, vv[0], facts, entries)
        if e is not None:
            known_hit.append({"what": e["what"], "count": rec["count"], "replay": path})
            print("KNOWN-FINDING: property=%s %s (oracle=%s where=%s, %d run(s); replay=%s)"
                  % (prop, e["what"], sig[0], sig[1], rec["count"], path))
        else:
            unlisted.append((sig, path, vv[0], rec["count"]))

    wall_s = _real_time.time() - t0
    write_evidence(prop, h, tier, verif_seed, total, wall_s, audit, known_hit, len(unlisted), runs,
                   workers)
    zero = [k for k in getattr(h, "EXPECTED_PROBES", ()) if not total.get("probes", {}).get(k)]
    if zero and tier == "thorough":
        print("WARNING property=%s probes never hit: %s" % (prop, ", ".join(zero)))
    print("property=%s tier=%s seed=%d runs=%d executions=%d distinct_nontrivial=%d sim_time=%.1fs "
          "faults=%d wall=%.1fs audit=%d/%d" % (
              prop, tier, verif_seed, runs, total.get("evaluations", 0),
              len(total.get("digests", ())), total.get("sim_us", 0) / 1e6,
              sum(total.get("faults", {}).values()), wall_s,
              audit["executions_compared"] - audit["mismatches"], audit["executions_compared"]))
    if unlisted:
        for sig, path, v, count in unlisted:
            print("VIOLATION property=%s replay=%s" % (prop, path))
            print("  oracle=%s where=%s runs=%d detail=%s" % (sig[0], sig[1], count, v["detail"]))
        if audit_failed:
            print("NOTE property=%s determinism audit: %d executions differ between processes - the code under "
                  "test carries state from one scenario to the next" % (prop, audit["mismatches"]))
        return 1
    if unreproducible:
        print("HARNESS-ERROR property=%s %d violation signature(s) did not reproduce in a fresh interpreter: %s"
              % (prop, len(unreproducible), [u[0] for u in unreproducible][:5]))
        return 2
    if audit_failed:
        print("HARNESS-ERROR property=%s determinism audit: %d mismatching digests %s"
              % (prop, audit["mismatches"], audit["mismatch_keys"]))
        return 2
    return 0


def main(argv):
    import argparse
    ap = argparse.ArgumentParser(prog="check")
    ap.add_argument("prop")
    ap.add_argument("tier", nargs="?", default=os.environ.get("VERIF_TIER") or "quick")
    ap.add_argument("--replay")
    ap.add_argument("--expect", action="store_true")
    ap.add_argument("--audit")
    ap.add_argument("--seed")
    ap.add_argument("--runs", type=int)
    ap.add_argument("--workers", type=int)
    a = ap.parse_args(argv)
    prop = a.prop.upper()
    if prop not in PROPS:
        print("HARNESS-ERROR unknown property %s" % prop)
        return 2
    seed = int(a.seed or os.environ.get("VERIF_SEED") or DEFAULT_SEED)
    try:
        check_code_under_test()
        if a.audit:
            idx = [int(x) for x in a.audit.split(",") if x]
            print(json.dumps(audit_digests(prop, a.tier, seed, idx)))
            return 0
        if a.replay:
            ok, same, vs, dg = do_replay(prop, a.replay)
            for v in vs:
                print("  violation oracle=%s where=%s detail=%s" % (v["oracle"], v["where"], v["detail"]))
            if ok:
                print("REPRODUCED digest_%s" % ("match" if same else "MISMATCH " + dg))
                print("VIOLATION property=%s replay=%s" % (prop, a.replay))
                return 1 if (same or not a.expect) else 2
            print("NOT-REPRODUCED property=%s replay=%s" % (prop, a.replay))
            return 0
        if a.tier not in ("quick", "thorough"):
            print("HARNESS-ERROR unknown tier %s" % a.tier)
            return 2
        return run_check(prop, a.tier, seed, a.runs, a.workers)
    except HarnessError as e:
        print("HARNESS-ERROR property=%s %s" % (prop, e))
        return 2
    except Exception:
        print("HARNESS-ERROR property=%s unexpected:\n%s" % (prop, traceback.format_exc()))
        return 2
