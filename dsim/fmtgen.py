"""Seeded generator of args-format specs (JSON-able) and builder of real ArgsFormat objects.

spec = {"names": [[name, [aliases]]], "args": [[name, flags, default]],
        "opts": [[long, short, flags, default]], "base": spec | None}

Generated specs always respect the format rules (unique names across levels, required before
optional, one multi-valued argument, last), so building never fails; rule *breaches* are C06's
workload, not this module's.
"""

# Option flags
O_NO, O_REQ, O_OPT, O_MULTI = 4, 8, 16, 32
O_STR, O_BOOL, O_INT, O_FLOAT, O_NULL = 128, 256, 512, 1024, 2048
# Argument flags
A_REQ, A_OPT, A_MULTI = 1, 2, 4
A_STR, A_BOOL, A_INT, A_FLOAT, A_NULL = 16, 32, 64, 128, 256

LONGS = ["alpha", "beta", "gamma", "delta", "force", "level", "name", "tag", "dry-run", "count"]
SHORTS = list("abcdfgklmtxyz")
ARGS = ["src", "dst", "target", "path", "item", "extra"]
CMDS = ["server", "add", "remove", "list", "show", "run"]

VALUES = {
    "str": ["foo", "bar baz", "x", "0", "null", "été", "a=b", "-"],
    "int": ["0", "1", "42", "-7", "007"],
    "float": ["1.5", "0.0", "3", "-2.25"],
    "bool": ["true", "false", "1", "0", "yes", "no", "on", "off"],
}
PY_DEFAULTS = {"str": [1, True, 1.0, 0, False, 0.0], "int": [1, 0, True, 1.0], "float": [1.0, 0.0, 1, True], "bool": [True, False, 1, 0]}
BAD = {"int": ["abc", "1.5", ""], "float": ["abc", "1,5"], "bool": ["maybe", "2"], "str": []}


def opt_type(flags):
    if flags & O_BOOL:
        return "bool"
    if flags & O_INT:
        return "int"
    if flags & O_FLOAT:
        return "float"
    return "str"


def arg_type(flags):
    if flags & A_BOOL:
        return "bool"
    if flags & A_INT:
        return "int"
    if flags & A_FLOAT:
        return "float"
    return "str"


def gen_level(r, used_long, used_short, used_args, allow_args=True, n_names=None, prior_args=None):
    """One level of a format spec.  ``prior_args`` = argument list of the levels below (base)."""
    names = []
    for _ in range(r.randint(0, 2) if n_names is None else n_names):
        n = r.pick(CMDS)
        aliases = [r.pick(["srv", "a", "rm", "ls"])] if r.chance(0.3) else []
        names.append([n, aliases])
    opts = []
    for _ in range(r.randint(0, 4)):
        cand = [x for x in LONGS if x not in used_long]
        if not cand:
            break
        long_name = r.pick(cand)
        used_long.add(long_name)
        short = None
        if r.chance(0.6):
            sc = [x for x in SHORTS if x not in used_short]
            if sc:
                short = r.pick(sc)
                used_short.add(short)
        mode = r.weighted([(O_NO, 3), (O_REQ, 3), (O_OPT, 2), (O_MULTI, 2)])
        flags = mode
        default = None
        if mode != O_NO:
            t = r.weighted([(O_STR, 4), (O_INT, 2), (O_FLOAT, 1), (O_BOOL, 1), (0, 2)])
            flags |= t
            if r.chance(0.2):
                flags |= O_NULL
            if mode == O_MULTI:
                default = r.pick([None, None, ["d1"], ["d1", "d2"]])
            elif r.chance(0.4):
                default = r.pick(VALUES[opt_type(flags)])
                if r.chance(0.3):
                    # defaults need not be strings: equal Python values of different types (1, 1.0, True)
                    default = r.pick(PY_DEFAULTS[opt_type(flags)])
        opts.append([long_name, short, flags, default])
    args = []
    if allow_args:
        prior = prior_args or []
        has_opt = any(a[1] & A_OPT for a in prior)
        has_multi = any(a[1] & A_MULTI for a in prior)
        for _ in range(r.randint(0, 3)):
            if has_multi:
                break
            cand = [x for x in ARGS if x not in used_args]
            if not cand:
                break
            name = r.pick(cand)
            used_args.add(name)
            if has_opt:
                kind = A_OPT
            else:
                kind = r.pick([A_REQ, A_REQ, A_OPT])
            flags = kind
            if r.chance(0.25):
                flags |= A_MULTI
                has_multi = True
            if kind == A_OPT:
                has_opt = True
            t = r.weighted([(A_STR, 4), (A_INT, 2), (A_FLOAT, 1), (A_BOOL, 1), (0, 2)])
            flags |= t
            if r.chance(0.15):
                flags |= A_NULL
            default = None
            if kind == A_OPT and r.chance(0.4):
                default = [r.pick(VALUES[arg_type(flags)])] if flags & A_MULTI else r.pick(VALUES[arg_type(flags)])
            args.append([name, flags, default])
    return {"names": names, "opts": opts, "args": args}


def gen_spec(r, levels=None):
    if levels is None:
        levels = r.weighted([(1, 5), (2, 3), (3, 1)])
    used_long, used_short, used_args = set(), set(), set()
    spec = None
    prior = []
    for _ in range(levels):
        lv = gen_level(r, used_long, used_short, used_args, prior_args=prior)
        prior = prior + lv["args"]
        lv["base"] = spec
        spec = lv
    return spec


def build(spec):
    """Real ArgsFormat from a spec (through the builder, level by level)."""
    from clikit.api.args.format import ArgsFormat, ArgsFormatBuilder, Argument, CommandName, Option

    if spec is None:
        return None
    base = build(spec.get("base"))
    b = ArgsFormatBuilder(base)
    for name, aliases in spec["names"]:
        b.add_command_name(CommandName(name, list(aliases)))
    for long_name, short, flags, default in spec["opts"]:
        d = list(default) if isinstance(default, list) else default
        b.add_option(Option(long_name, short, flags, "option " + long_name, d))
    for name, flags, default in spec["args"]:
        d = list(default) if isinstance(default, list) else default
        b.add_argument(Argument(name, flags, "argument " + name, d))
    return b.format


def flat(spec):
    """(names, opts, args) over all levels, base first."""
    if spec is None:
        return [], [], []
    n, o, a = flat(spec.get("base"))
    return n + spec["names"], o + spec["opts"], a + spec["args"]


def gen_tokens(r, spec, p_break=0.3):
    """A command line for ``spec``: an intended assignment spelled one way, then possibly broken.
    Returns (tokens, notes)."""
    names, opts, args = flat(spec)
    toks = []
    notes = []
    # command names (sometimes omitted, sometimes by alias)
    for name, aliases in names:
        if r.chance(0.8):
            toks.append(r.pick(aliases) if aliases and r.chance(0.3) else name)
    opt_toks = []
    for long_name, short, flags, default in opts:
        if not r.chance(0.5):
            continue
        reps = r.randint(1, 3) if flags & O_MULTI else 1
        for _ in range(reps):
            if flags & O_NO:
                opt_toks.append(["-" + short] if short and r.chance(0.5) else ["--" + long_name])
            else:
                t = opt_type(flags)
                v = r.pick(VALUES[t])
                if flags & O_OPT and r.chance(0.3):
                    opt_toks.append(["--" + long_name])
                    continue
                style = r.randrange(4)
                if style == 0:
                    opt_toks.append(["--%s=%s" % (long_name, v)])
                elif style == 1 or not short:
                    opt_toks.append(["--" + long_name, v])
                elif style == 2:
                    opt_toks.append(["-" + short, v])
                else:
                    opt_toks.append(["-" + short + v])
    pos = []
    for name, flags, default in args:
        t = arg_type(flags)
        if flags & A_MULTI:
            k = r.randint(0 if flags & A_OPT else 1, 3)
            pos.extend(r.pick(VALUES[t]) for _ in range(k))
        elif flags & A_REQ or r.chance(0.6):
            pos.append(r.pick(VALUES[t]))
        else:
            break
    # interleave options among positionals
    items = [[p] for p in pos]
    for ot in opt_toks:
        items.insert(r.randint(0, len(items)), ot)
    for it in items:
        toks.extend(it)
    # breakage (these are the faults of C05's histories)
    if r.chance(p_break):
        kind = r.pick(["unknown_long", "unknown_short", "value_to_flag", "missing_value", "surplus",
                       "untypable", "drop_required", "dashdash", "empty_token"])
        notes.append(kind)
        if kind == "unknown_long":
            toks.insert(r.randint(0, len(toks)), "--nope")
        elif kind == "unknown_short":
            toks.insert(r.randint(0, len(toks)), "-Z")
        elif kind == "value_to_flag":
            fl = [o for o in opts if o[2] & O_NO]
            toks.insert(r.randint(0, len(toks)), "--%s=1" % (r.pick(fl)[0] if fl else "nope"))
        elif kind == "missing_value":
            rq = [o for o in opts if o[2] & (O_REQ | O_MULTI)]
            toks.append("--" + (r.pick(rq)[0] if rq else "nope"))
        elif kind == "surplus":
            toks.extend(["s1", "s2", "s3", "s4"][:r.randint(1, 4)])
        elif kind == "untypable":
            ty = [o for o in opts if not (o[2] & O_NO) and opt_type(o[2]) != "str"]
            if ty:
                o = r.pick(ty)
                bad = BAD[opt_type(o[2])]
                toks.insert(r.randint(0, len(toks)), "--%s=%s" % (o[0], r.pick(bad) if bad else "x"))
            else:
                toks.append("notanumber")
        elif kind == "drop_required":
            if pos and pos[0] in toks:
                toks.remove(pos[0])
        elif kind == "dashdash":
            toks.insert(r.randint(0, len(toks)), "--")
        elif kind == "empty_token":
            toks.insert(r.randint(0, len(toks)), "")
    return toks, notes


def sibling(r, spec):
    """A format with the same command / option / argument NAMES as ``spec`` but other flags, short
    names and aliases: what a cache keyed on names alone would confuse."""
    import copy
    sp = copy.deepcopy(spec)
    lv = sp
    used_short = set()
    while lv is not None:
        for n in lv["names"]:
            n[1] = [] if n[1] else [r.pick(["srv", "rm", "ls"])]
        for o in lv["opts"]:
            mode = r.weighted([(O_NO, 3), (O_REQ, 3), (O_OPT, 2), (O_MULTI, 2)])
            flags = mode
            o[3] = None
            if mode != O_NO:
                flags |= r.weighted([(O_STR, 4), (O_INT, 2), (O_FLOAT, 1), (O_BOOL, 1)])
                if mode == O_MULTI:
                    o[3] = r.pick([None, ["d1"]])
            o[2] = flags
            sc = [x for x in SHORTS if x not in used_short]
            o[1] = r.pick(sc) if sc and r.chance(0.6) else None
            if o[1]:
                used_short.add(o[1])
        # arguments: keep the ordering rules valid by only changing types and optional->required on a prefix
        for a in lv["args"]:
            kind = a[1] & (A_REQ | A_OPT | A_MULTI)
            a[1] = kind | r.weighted([(A_STR, 4), (A_INT, 2), (A_FLOAT, 1), (A_BOOL, 1)])
            if not (a[1] & A_OPT):
                a[2] = None
            elif a[2] is not None:
                t = arg_type(a[1])
                a[2] = [r.pick(VALUES[t])] if a[1] & A_MULTI else r.pick(VALUES[t])
        lv = lv.get("base")
    return sp
