"""known_findings.json: genuine defects recorded rather than repaired.  Read-only at run time.

An *open* entry matches a violation iff property, oracle and where are equal and every key of the
entry's ``condition`` equals the corresponding fact the harness computes from the *minimised*
scenario (``condition(scenario, violation)``).  A *fixed* entry suppresses nothing.
"""
import json
import os

PATH = os.path.join(os.path.dirname(os.path.dirname(os.path.abspath(__file__))),
                    "known_findings.json")


def load():
    if not os.path.exists(PATH):
        return []
    with open(PATH) as f:
        return json.load(f).get("findings", [])


def match(prop, violation, facts, entries=None):
    if entries is None:
        entries = load()
    for e in entries:
        if e.get("property") != prop or e.get("status") != "open":
            continue
        if e.get("oracle") != violation["oracle"] or e.get("where") != violation["where"]:
            continue
        cond = e.get("condition", {})
        if all(facts.get(k) == v for k, v in cond.items()):
            return e
    return None
