"""In-memory source store behind ``open()`` (as seen by crashtest.frame) and ``linecache``.

Generated modules are compiled with a store path as file name and executed with a ``__loader__``
whose ``get_source`` reads the store, then registered with ``linecache.lazycache`` so that
``inspect`` finds their code context.  A per-path *fault* changes what every later read sees:

    None        the text as executed
    "enoent"    open() raises FileNotFoundError, the loader has no source
    "eacces"    open() raises PermissionError, the loader has no source
    ("truncate", n)   only the first n lines are left
    ("replace", text) the file now holds other text
    "empty"     the file is empty

Faults are injected *after* the module was executed (the code ran from the original text), which
is what happens when a file changes or disappears between a failure and the rendering of its trace.
"""
import builtins
import io
import linecache

PREFIX = "/simfs/"


class Store(object):
    def __init__(self):
        self.files = {}
        self.faults = {}
        self.reads = 0
        self.fault_hits = {}

    def _hit(self, kind):
        self.fault_hits[kind] = self.fault_hits.get(kind, 0) + 1

    def current_text(self, path, via):
        """Text a reader sees now, or raises OSError / returns None (loader) per the fault."""
        f = self.faults.get(path)
        text = self.files[path]
        if f is None:
            return text
        if f == "enoent":
            self._hit("enoent:" + via)
            if via == "open":
                raise FileNotFoundError(2, "simulated: No such file or directory", path)
            return None
        if f == "eacces":
            self._hit("eacces:" + via)
            if via == "open":
                raise PermissionError(13, "simulated: Permission denied", path)
            return None
        if f == "empty":
            self._hit("empty:" + via)
            return ""
        if f[0] == "truncate":
            self._hit("truncate:" + via)
            return "".join(text.splitlines(True)[:f[1]])
        if f[0] == "replace":
            self._hit("replace:" + via)
            return f[1]
        raise ValueError(f)

    def open(self, path, mode="r", *a, **k):
        if isinstance(path, str) and path.startswith(PREFIX):
            self.reads += 1
            if path not in self.files:
                raise FileNotFoundError(2, "simulated: No such file or directory", path)
            text = self.current_text(path, "open")
            if "b" in mode:
                return io.BytesIO(text.encode("utf-8"))
            return io.StringIO(text)
        return builtins.open(path, mode, *a, **k)

    def loader(self, path):
        store = self

        class Loader(object):
            def get_source(self, name):
                return store.current_text(path, "loader")

        return Loader()

    def run_module(self, path, source, extra_globals=None):
        """Executes ``source`` as a module whose file is ``path`` in the store."""
        self.files[path] = source
        g = {"__name__": "simmod_" + path[len(PREFIX):].replace("/", "_").replace(".py", ""),
             "__file__": path, "__loader__": self.loader(path)}
        if extra_globals:
            g.update(extra_globals)
        code = compile(source, path, "exec")
        linecache.cache.pop(path, None)
        linecache.lazycache(path, g)
        exec(code, g)
        return g

    def inject(self, path, fault, module_globals):
        """Sets the fault and drops what linecache already knows, like a changed mtime would."""
        self.faults[path] = fault
        linecache.cache.pop(path, None)
        linecache.lazycache(path, module_globals)

    def cleanup(self):
        for p in list(self.files):
            linecache.cache.pop(p, None)


def scenario_prefix(sc):
    """A store directory unique to the scenario: process-wide caches of the code under test that are
    keyed by file name (crashtest's content cache, the trace renderer's snippet cache) can then never
    serve one scenario what another one put there - without the harness knowing those caches."""
    import hashlib
    import json
    body = {k: v for k, v in sc.items() if k != "_run"}
    tag = hashlib.sha256(json.dumps(body, sort_keys=True, default=str).encode("utf-8")).hexdigest()[:10]
    return PREFIX + "s" + tag + "/"


def clear_known_caches():
    """Best effort only (private names of the code under test may change): isolation between
    scenarios rests on ``scenario_prefix``."""
    try:
        from crashtest.frame import Frame
        c = getattr(Frame, "_content_cache", None)
        if isinstance(c, dict):
            for k in [k for k in c if isinstance(k, str) and k.startswith(PREFIX)]:
                del c[k]
    except Exception:
        pass
    try:
        from clikit.ui.components.exception_trace import ExceptionTrace
        c = getattr(ExceptionTrace, "_FRAME_SNIPPET_CACHE", None)
        if isinstance(c, dict):
            c.clear()
    except Exception:
        pass
