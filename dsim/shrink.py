"""Minimisation of a failing scenario while the same violation signature persists.

1. ddmin over each list named in ``OPS_KEYS`` (drop chunks, then single elements);
2. harness-specific simplification candidates (``simplify(scenario)``), greedy, restarted after
   every accepted step;
within a re-execution budget.  ``execute`` is a pure function of the scenario, so the search is
deterministic.
"""
import copy

from .harness import signature


class Shrinker(object):
    def __init__(self, harness, sig, budget=600, execute=None):
        self.h = harness
        self._execute = execute or harness.execute  # the runner passes its guarded execute (wall alarm)
        self.hangs = 0
        self.sig = tuple(sig)
        self.budget = budget
        self.steps = 0
        self.accepted = 0

    def fails(self, scenario):
        if self.steps >= self.budget:
            return None
        self.steps += 1
        try:
            res = self._execute(scenario)
        except Exception:
            return None
        if any(v["oracle"] == "hang" for v in res.violations):
            self.hangs += 1
            if self.hangs >= 2 and self.sig[0] != "hang":
                self.steps = self.budget  # candidates that hang cost the full wall each: stop here
        for v in res.violations:
            if signature(v) == self.sig:
                return v
        return None

    def _ddmin_key(self, sc, key):
        items = sc.get(key)
        if not isinstance(items, list) or len(items) < 1:
            return sc
        n = 2
        while len(items) >= 1 and self.steps < self.budget:
            chunk = max(1, len(items) // n)
            reduced = False
            i = 0
            while i < len(items):
                cand_items = items[:i] + items[i + chunk:]
                cand = dict(sc)
                cand[key] = cand_items
                if self.fails(cand) is not None:
                    items = cand_items
                    sc = cand
                    self.accepted += 1
                    reduced = True
                else:
                    i += chunk
                if self.steps >= self.budget:
                    break
            if not reduced:
                if chunk == 1:
                    break
                n = min(len(items), n * 2) if len(items) else 1
            else:
                n = max(2, n - 1)
            if not items:
                break
        return sc

    def run(self, scenario):
        sc = copy.deepcopy(scenario)
        keys = getattr(self.h, "OPS_KEYS", ("ops",))
        simplify = getattr(self.h, "simplify", None)
        for _round in range(4):
            before = self.accepted
            for k in keys:
                sc = self._ddmin_key(sc, k)
            if simplify is not None:
                progress = True
                while progress and self.steps < self.budget:
                    progress = False
                    for cand in simplify(sc):
                        if self.fails(cand) is not None:
                            sc = cand
                            self.accepted += 1
                            progress = True
                            break
                        if self.steps >= self.budget:
                            break
            if self.accepted == before:
                break
        return sc
