"""A small terminal emulator: the far side of the simulated output stream.

Semantics (xterm / VT100, cooked-mode tty):
  * printable character: written at the cursor; writing into the last column sets a *pending
    wrap* instead of moving on (deferred auto-wrap), the next printable character first moves to
    column 0 of the next row.  A line of exactly ``width`` characters followed by LF therefore
    occupies one row.
  * LF: next row, column 0 (ONLCR).  CR: column 0.  TAB: next multiple of 8.
  * ESC[nA cursor up (clamped at row 0, counted in ``clamped_up``), ESC[nB down, ESC[nC / ESC[nD
    right / left, ESC[J / ESC[0J erase from cursor to end of screen, ESC[2J whole screen,
    ESC[K / ESC[0K erase to end of line, ESC[1K to start of line, ESC[2K whole line,
    ESC[...m SGR (attributes are kept per cell).
  * rows grow downwards without limit (no scrolling: nothing written can leave the model).

Anything else is a harness error (``UnknownSequence``) - never ignored, never a violation.
"""
import re


class UnknownSequence(Exception):
    pass


_CSI = re.compile(r"\x1b\[([0-9;?]*)([A-Za-z])")

_FG = set(range(30, 38)) | {39} | set(range(90, 98))
_BG = set(range(40, 48)) | {49} | set(range(100, 108))
_OPT_ON = {1, 2, 3, 4, 5, 7, 8}
_OPT_OFF = {22: (1, 2), 23: (3,), 24: (4,), 25: (5,), 27: (7,), 28: (8,)}

BLANK = (" ", None)


class Attr(object):
    __slots__ = ("fg", "bg", "opts")

    def __init__(self, fg=None, bg=None, opts=frozenset()):
        self.fg, self.bg, self.opts = fg, bg, opts

    def key(self):
        if self.fg is None and self.bg is None and not self.opts:
            return None
        return (self.fg, self.bg, tuple(sorted(self.opts)))


class Screen(object):
    def __init__(self, width, sentinel_rows=()):
        self.width = int(width)
        self.rows = []  # list of lists of (char, attrkey)
        self.r = 0
        self.c = 0
        self.pending = False
        self.attr = Attr()
        self.clamped_up = 0
        self.wraps = 0
        self.sgr_seen = 0
        self.bytes = 0
        for s in sentinel_rows:
            self.feed(s + "\n")

    # ------------------------------------------------------------------------------------
    def _row(self, r):
        while len(self.rows) <= r:
            self.rows.append([])
        return self.rows[r]

    def _put(self, ch):
        if self.pending:
            self.r += 1
            self.c = 0
            self.pending = False
            self.wraps += 1
        row = self._row(self.r)
        while len(row) <= self.c:
            row.append(BLANK)
        row[self.c] = (ch, self.attr.key())
        if self.c >= self.width - 1:
            self.pending = True
        else:
            self.c += 1

    def _sgr(self, params):
        self.sgr_seen += 1
        codes = [int(p) if p else 0 for p in params.split(";")] if params else [0]
        a = self.attr
        fg, bg, opts = a.fg, a.bg, set(a.opts)
        for code in codes:
            if code == 0:
                fg, bg, opts = None, None, set()
            elif code in _FG:
                fg = None if code == 39 else code
            elif code in _BG:
                bg = None if code == 49 else code
            elif code in _OPT_ON:
                opts.add(code)
            elif code in _OPT_OFF:
                for o in _OPT_OFF[code]:
                    opts.discard(o)
            else:
                raise UnknownSequence("SGR code %r" % code)
        self.attr = Attr(fg, bg, frozenset(opts))

    def _erase_line(self, mode):
        row = self._row(self.r)
        if mode == 2:
            del row[:]
        elif mode == 0:
            del row[self.c:]
        elif mode == 1:
            for i in range(min(len(row), self.c + 1)):
                row[i] = BLANK
        else:
            raise UnknownSequence("EL mode %r" % mode)

    def _erase_display(self, mode):
        if mode == 0:
            self._erase_line(0)
            del self.rows[self.r + 1:]
        elif mode == 2:
            del self.rows[:]
        else:
            raise UnknownSequence("ED mode %r" % mode)

    def feed(self, data):
        self.bytes += len(data)
        i, n = 0, len(data)
        while i < n:
            ch = data[i]
            if ch == "\x1b":
                m = _CSI.match(data, i)
                if not m:
                    raise UnknownSequence("escape at %d in %r" % (i, data[i:i + 12]))
                params, final = m.group(1), m.group(2)
                i = m.end()
                if final == "m":
                    self._sgr(params)
                    continue
                if "?" in params or ";" in params:
                    raise UnknownSequence("CSI %r %r" % (params, final))
                num = int(params) if params else None
                if final == "A":
                    k = 1 if not num else num
                    if k > self.r:
                        self.clamped_up += 1
                    self.r = max(0, self.r - k)
                    self.pending = False
                elif final == "B":
                    self.r += 1 if not num else num
                    self.pending = False
                elif final == "C":
                    self.c = min(self.width - 1, self.c + (1 if not num else num))
                    self.pending = False
                elif final == "D":
                    self.c = max(0, self.c - (1 if not num else num))
                    self.pending = False
                elif final == "J":
                    self._erase_display(num or 0)
                elif final == "K":
                    self._erase_line(num or 0)
                else:
                    raise UnknownSequence("CSI final %r" % final)
                continue
            i += 1
            if ch == "\n":
                self.r += 1
                self.c = 0
                self.pending = False
                self._row(self.r)
            elif ch == "\r":
                self.c = 0
                self.pending = False
            elif ch == "\t":
                self.c = min(self.width - 1, (self.c // 8 + 1) * 8)
                self.pending = False
            elif ch == "\x08":
                self.c = max(0, self.c - 1)
                self.pending = False
            elif ch < " " or ch == "\x7f":
                raise UnknownSequence("control character %r" % ch)
            else:
                self._put(ch)

    # ------------------------------------------------------------------------------------
    view_indent = 0  # a reader that knows the output is indented by n blanks looks past them

    def _view(self, text):
        n = self.view_indent
        return text[n:] if n and text[:n] == " " * n else text

    def text_rows(self):
        """Rows as right-stripped strings; trailing empty rows removed."""
        out = [self._view("".join(c for c, _ in row).rstrip()) for row in self.rows]
        while out and out[-1] == "":
            out.pop()
        return out

    def row_text(self, r):
        if r < 0 or r >= len(self.rows):
            return ""
        return self._view("".join(c for c, _ in self.rows[r]).rstrip())

    def row_cells(self, r):
        if r < 0 or r >= len(self.rows):
            return []
        return list(self.rows[r])

    def cursor(self):
        return (self.r, self.c)

    def runs(self, r):
        """Row r as a list of (text, attrkey) runs of equal attributes."""
        out = []
        for ch, a in self.row_cells(r):
            if out and out[-1][1] == a:
                out[-1][0] += ch
            else:
                out.append([ch, a])
        return [(t, a) for t, a in out]


def strip_ansi(s):
    """Remove CSI sequences (used by oracles on byte strings)."""
    return _CSI.sub("", s)


def wrap_rows(line, width):
    """Rows a logical line of visible text occupies under deferred wrap (len==width -> 1 row)."""
    line = line.replace("\t", " " * 8)  # only used where no tabs are generated
    if not line:
        return [""]
    return [line[i:i + width] for i in range(0, len(line), width)]
