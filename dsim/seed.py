"""One integer -> named, independent PRNG streams.

run seed  s_i = H(VERIF_SEED, property id, run index)
stream    r_l = Random(H(s_i, label))

Adding a draw to one stream never perturbs another.  Nothing here reads a clock or os.urandom.
"""
import hashlib
import random

DEFAULT_SEED = 20260101


def _h(*parts):
    m = hashlib.sha256()
    for p in parts:
        m.update(repr(p).encode("utf-8"))
        m.update(b"\x00")
    return m.digest()


def run_seed(verif_seed, prop, index):
    return int.from_bytes(_h("run", int(verif_seed), str(prop), int(index))[:8], "big")


class Rng(random.Random):
    """random.Random with a few helpers; seeded from an int only."""

    def chance(self, p):
        return self.random() < p

    def pick(self, seq):
        return seq[self.randrange(len(seq))]

    def weighted(self, pairs):
        """pairs: [(item, weight), ...]"""
        total = sum(w for _, w in pairs)
        x = self.random() * total
        acc = 0.0
        for item, w in pairs:
            acc += w
            if x < acc:
                return item
        return pairs[-1][0]

    def subset(self, seq, p=0.5):
        return [x for x in seq if self.random() < p]


class Streams(object):
    """Named PRNG streams derived from one run seed."""

    def __init__(self, seed):
        self.seed = int(seed)
        self._cache = {}

    def __call__(self, label):
        r = self._cache.get(label)
        if r is None:
            r = Rng(int.from_bytes(_h("stream", self.seed, label)[:8], "big"))
            self._cache[label] = r
        return r


def digest(obj):
    """Stable digest of a JSON-like / repr-able event log."""
    return hashlib.sha256(repr(obj).encode("utf-8", "backslashreplace")).hexdigest()[:24]
