"""Sensitivity self-test: hand-written mutants of the anchored mechanisms, applied to a scratch copy
of /repo/src (outside /repo and /verif), never to /repo itself.

    /venv/bin/python -B -m dsim.selftest.mutants [C12 ...] [--runs N]

For every mutant the quick tier must exit 1 (VIOLATION); mutants marked ``equivalent`` must exit 0.
The scratch copy and its output directory are removed after each mutant.
"""
import os
import shutil
import subprocess
import sys
import tempfile

VERIF = os.path.dirname(os.path.dirname(os.path.dirname(os.path.abspath(__file__))))

# (property, name, file under src/clikit, old, new, expect) ; expect: "caught" | "silent"
MUTANTS = []


def M(prop, name, path, old, new, expect="caught"):
    MUTANTS.append((prop, name, path, old, new, expect))


# ---- C12 ------------------------------------------------------------------------------------
M("C12", "no_cache_invalidation", "api/event/event_dispatcher.py",
  "        if event_name in self._sorted:\n            del self._sorted[event_name]\n", "")
M("C12", "reverse_within_priority", "api/event/event_dispatcher.py",
  "            for listener in listeners:\n                self._sorted[event_name].append(listener)",
  "            for listener in reversed(listeners):\n                self._sorted[event_name].append(listener)")
M("C12", "ascending_priority", "api/event/event_dispatcher.py", "key=lambda t: -t[0]", "key=lambda t: t[0]")
M("C12", "stop_checked_after_next", "api/event/event_dispatcher.py",
  "            if event.is_propagation_stopped():\n                break\n\n            listener(event, event_name, self)",
  "            listener(event, event_name, self)\n\n            if event.is_propagation_stopped() and listener is listeners[-1]:\n                break")
M("C12", "sort_in_place_equivalent", "api/event/event_dispatcher.py",
  "key=lambda t: -t[0]", "key=lambda t: (-t[0], 0)", expect="silent")

# ---- C16 ------------------------------------------------------------------------------------
M("C16", "throttle_le", "ui/components/progress_bar.py",
  "        if time_interval < self._min_seconds_between_redraws:\n            return",
  "        if time_interval < self._min_seconds_between_redraws / 2:\n            return")
M("C16", "no_draw_at_max", "ui/components/progress_bar.py",
  "        if step == self._max:\n            self.display()\n\n            return\n", "")
M("C16", "pad_raw_length", "ui/components/progress_bar.py",
  "                length = len(self._io.remove_format(line))\n", "                length = len(line)\n")
M("C16", "bar_one_short", "ui/components/progress_bar.py",
  "                self.bar_width\n                - complete_bars\n", "                self.bar_width - 1\n                - complete_bars\n")
M("C16", "finish_skips", "ui/components/progress_bar.py",
  "        self.set_progress(self._max)\n\n    def display", "        self._step = self._max\n\n    def display")
M("C16", "negative_step_kept", "ui/components/progress_bar.py",
  "        elif step < 0:\n            step = 0\n", "        elif step < -1:\n            step = 0\n")


def run_one(m, runs):
    prop, name, path, old, new, expect = m
    tmp = tempfile.mkdtemp(prefix="dsim-mut-")
    try:
        src = os.path.join(tmp, "src")
        shutil.copytree("/repo/src", src, ignore=shutil.ignore_patterns("__pycache__"))
        f = os.path.join(src, "clikit", path)
        text = open(f).read()
        if old not in text:
            return "STALE (pattern not found)"
        open(f, "w").write(text.replace(old, new, 1))
        env = dict(os.environ, CLIKIT_SRC=src, DSIM_OUT=os.path.join(tmp, "out"))
        env.pop("PYTHONHASHSEED", None)
        env.pop("PYTHONPYCACHEPREFIX", None)
        cmd = [os.path.join(VERIF, "check"), prop, "quick"]
        if runs:
            cmd += ["--runs", str(runs)]
        p = subprocess.run(cmd, env=env, stdout=subprocess.PIPE, stderr=subprocess.STDOUT,
                           universal_newlines=True, timeout=1800)
        viol = [l for l in p.stdout.splitlines() if l.startswith("VIOLATION") or l.startswith("  oracle=")]
        if expect == "caught":
            ok = p.returncode == 1
        else:
            ok = p.returncode == 0
        return "%s rc=%d %s" % ("ok  " if ok else "FAIL", p.returncode,
                                 "; ".join(v.strip()[:110] for v in viol if v.startswith("  oracle"))[:400]
                                 if p.returncode != 2 else p.stdout[-600:])
    finally:
        shutil.rmtree(tmp, ignore_errors=True)


def main(argv):
    runs = None
    props = []
    it = iter(argv)
    for a in it:
        if a == "--runs":
            runs = int(next(it))
        else:
            props.append(a.upper())
    bad = 0
    for m in MUTANTS:
        if props and m[0] not in props:
            continue
        r = run_one(m, runs)
        print("%s %-28s expect=%-6s %s" % (m[0], m[1], m[5], r))
        sys.stdout.flush()
        if not r.startswith("ok"):
            bad += 1
    return 1 if bad else 0


if __name__ == "__main__":
    sys.exit(main(sys.argv[1:]))
