"""Sensitivity self-test: hand-written mutants of the anchored mechanisms, applied to a scratch copy
of /repo/src (outside /repo and /verif), never to /repo itself.

    /venv/bin/python -B -m dsim.selftest.mutants [C12 ...] [--runs N]

For every mutant the quick tier must exit 1 (VIOLATION); mutants marked ``equivalent`` must exit 0.
The scratch copy and its output directory are removed after each mutant.
"""
import os
import shutil
import subprocess
import sys
import tempfile

VERIF = os.path.dirname(os.path.dirname(os.path.dirname(os.path.abspath(__file__))))

# (property, name, file under src/clikit, old, new, expect) ; expect: "caught" | "silent"
MUTANTS = []


def M(prop, name, path, old, new, expect="caught"):
    MUTANTS.append((prop, name, path, old, new, expect))


# ---- C12 ------------------------------------------------------------------------------------
M("C12", "no_cache_invalidation", "api/event/event_dispatcher.py",
  "        if event_name in self._sorted:\n            del self._sorted[event_name]\n", "")
M("C12", "reverse_within_priority", "api/event/event_dispatcher.py",
  "            for listener in listeners:\n                self._sorted[event_name].append(listener)",
  "            for listener in reversed(listeners):\n                self._sorted[event_name].append(listener)")
M("C12", "ascending_priority", "api/event/event_dispatcher.py", "key=lambda t: -t[0]", "key=lambda t: t[0]")
M("C12", "stop_checked_after_next", "api/event/event_dispatcher.py",
  "            if event.is_propagation_stopped():\n                break\n\n            listener(event, event_name, self)",
  "            listener(event, event_name, self)\n\n            if event.is_propagation_stopped() and listener is listeners[-1]:\n                break")
M("C12", "sort_in_place_equivalent", "api/event/event_dispatcher.py",
  "key=lambda t: -t[0]", "key=lambda t: (-t[0], 0)", expect="silent")

# ---- C16 ------------------------------------------------------------------------------------
M("C16", "throttle_le", "ui/components/progress_bar.py",
  "        if time_interval < self._min_seconds_between_redraws:\n            return",
  "        if time_interval < self._min_seconds_between_redraws / 2:\n            return")
M("C16", "no_draw_at_max", "ui/components/progress_bar.py",
  "        if step == self._max:\n            self.display()\n\n            return\n", "")
M("C16", "pad_raw_length", "ui/components/progress_bar.py",
  "                length = len(self._io.remove_format(line))\n", "                length = len(line)\n")
M("C16", "bar_one_short", "ui/components/progress_bar.py",
  "                self.bar_width\n                - complete_bars\n", "                self.bar_width - 1\n                - complete_bars\n")
M("C16", "finish_skips", "ui/components/progress_bar.py",
  "        self.set_progress(self._max)\n\n    def display", "        self._step = self._max\n\n    def display")
M("C16", "negative_step_kept", "ui/components/progress_bar.py",
  "        elif step < 0:\n            step = 0\n", "        elif step < -1:\n            step = 0\n")

# ---- C05 ------------------------------------------------------------------------------------
M("C05", "options_not_reset", "args/default_args_parser.py",
  "        self._arguments = OrderedDict()\n        self._options = OrderedDict()\n\n        arguments = OrderedDict()",
  "        self._arguments = OrderedDict()\n\n        arguments = OrderedDict()")
M("C05", "arguments_not_reset", "args/default_args_parser.py",
  "        self._arguments = OrderedDict()\n        self._options = OrderedDict()\n\n        arguments = OrderedDict()",
  "        self._options = OrderedDict()\n\n        arguments = OrderedDict()")
M("C05", "tokens_not_copied", "args/default_args_parser.py",
  "        tokens = raw_args.tokens[:]", "        tokens = raw_args.tokens")
M("C05", "argv_not_copied", "args/argv_args.py", "        argv = argv[:]\n", "")
M("C05", "options_reset_only_on_success", "args/default_args_parser.py",
  "        self._options = OrderedDict()\n\n        arguments = OrderedDict()",
  "        arguments = OrderedDict()")
M("C05", "multi_default_shared", "api/args/args.py",
  "            if not isinstance(value, list):\n                value = [value]\n\n            for i, v in enumerate(value):\n                value[i] = option.parse(v)",
  "            if not isinstance(value, list):\n                value = [value]\n            option._default.extend(value)\n\n            for i, v in enumerate(value):\n                value[i] = option.parse(v)")

# ---- C06 ------------------------------------------------------------------------------------
M("C06", "copt_insert_before_alias_check", "api/args/format/args_format_builder.py",
  "        for short_alias in short_aliases:\n            if self.has_option(short_alias) or self.has_command_option(short_alias):\n                raise CannotAddOptionException.already_exists(short_alias)\n\n        self._command_options[long_name] = command_option\n",
  "        self._command_options[long_name] = command_option\n\n        for short_alias in short_aliases:\n            if self.has_option(short_alias) or self.has_command_option(short_alias):\n                raise CannotAddOptionException.already_exists(short_alias)\n")
M("C06", "option_ignores_copt_short", "api/args/format/args_format_builder.py",
  "        if self.has_option(short_name) or self.has_command_option(short_name):\n            raise CannotAddOptionException.already_exists(short_name)\n\n        self._options[long_name] = option",
  "        if self.has_option(short_name):\n            raise CannotAddOptionException.already_exists(short_name)\n\n        self._options[long_name] = option")
M("C06", "multi_flag_set_before_checks", "api/args/format/args_format_builder.py",
  "        name = argument.name\n\n        if self.has_argument(name):",
  "        name = argument.name\n\n        if argument.is_optional():\n            self._hash_optional_arg = True\n\n        if self.has_argument(name):")
M("C06", "set_arguments_keeps_flags", "api/args/format/args_format_builder.py",
  "        self._arguments = {}\n        self._has_multi_valued_arg = False\n        self._hash_optional_arg = False\n",
  "        self._arguments = {}\n")
M("C06", "base_optional_ignored", "api/args/format/args_format_builder.py",
  "        if self._hash_optional_arg:\n            return True\n\n        if include_base and self._base_format:\n            return self._base_format.has_optional_argument()",
  "        if self._hash_optional_arg:\n            return True\n\n        if include_base and self._base_format and False:\n            return self._base_format.has_optional_argument()")
M("C06", "format_short_index_skips_alias", "api/args/format/args_format.py",
  "            for short_alias in command_option.short_aliases:\n                self._command_options_by_short_name[short_alias] = command_option\n", "")

# ---- C15 ------------------------------------------------------------------------------------
M("C15", "rows_floor", "api/io/section_output.py", "            math.ceil(\n", "            math.floor(\n")
M("C15", "clear_n_counts_lines", "api/io/section_output.py",
  "            lines = sum(self._count_rows(content) for content in removed[::2])\n", "")
M("C15", "erased_not_reversed", "api/io/section_output.py",
  'return "".join(reversed(erased_content))', 'return "".join(erased_content)')
M("C15", "no_erase_below", "api/io/section_output.py",
  '            super(SectionOutput, self).write("\\x1b[0J", with_indent=False)\n', "")
M("C15", "rows_ignore_tags", "api/io/section_output.py",
  "                len(self.remove_format(line_content).replace", "                len(line_content.replace")
M("C15", "section_appended_not_prepended", "api/io/section_output.py",
  "        sections.insert(0, self)", "        sections.append(self)")
M("C15", "plain_newline_dropped", "api/io/section_output.py",
  "string, flags=flags, new_line=new_line, with_indent=with_indent", "string, flags=flags")
M("C15", "plain_clear_writes", "api/io/section_output.py",
  "            or not self.supports_ansi()\n            and not self._formatter.force_ansi()\n        ):\n            return\n\n        if lines:",
  "        ):\n            return\n\n        if lines:", expect="silent")  # equivalent: plain sections never record content

# ---- C18 ------------------------------------------------------------------------------------
M("C18", "eof_swallowed", "ui/components/question.py",
  "            except _Aborted:\n                # There is nobody left to ask again\n                raise\n", "")
M("C18", "negative_index_accepted", "ui/components/choice_question.py",
  "                    if 0 <= value < len(self._values):", "                    if value < len(self._values):")
M("C18", "index_before_value", "ui/components/choice_question.py",
  "            try:\n                result = self._values.index(value)\n                result = self._values[result]\n            except ValueError:",
  "            try:\n                if value.isdigit() and int(value) < len(self._values):\n                    raise ValueError()\n                result = self._values.index(value)\n                result = self._values[result]\n            except ValueError:")
M("C18", "attempt_off_by_one", "ui/components/question.py",
  "        while attempts is None or attempts:", "        while attempts is None or attempts >= 0:")
M("C18", "error_printed_twice", "ui/components/question.py",
  "            if error is not None:\n                self._write_error(io, error)\n",
  "            if error is not None:\n                self._write_error(io, error)\n                if attempts == 1:\n                    self._write_error(io, error)\n")
M("C18", "confirm_default_false_inverted", "ui/components/confirmation_question.py",
  "            return answer and answer_is_true", "            return answer and not answer_is_true")
M("C18", "noninteractive_prompts", "ui/components/question.py",
  "        if not io.is_interactive():\n            return self.default",
  "        if not io.is_interactive():\n            self._write_prompt(io)\n            return self.default")
M("C18", "multi_returns_indices_on_dup", "ui/components/choice_question.py",
  "            multiselect_choices.append(result)", "            multiselect_choices.append(result if len(multiselect_choices) < 2 else value)")
M("C18", "empty_not_default", "ui/components/question.py",
  "        if len(ret) <= 0:\n            ret = self._default", "        if len(ret) < 0:\n            ret = self._default")

# ---- C11 ------------------------------------------------------------------------------------
M("C11", "exit_restores_zero", "api/io/indent.py",
  "            output._indent = self._original_indents[i]", "            output._indent = 0")
M("C11", "no_restore_on_exception", "api/io/indent.py",
  "    def __exit__(self, exc_type, exc_val, exc_tb):\n", "    def __exit__(self, exc_type, exc_val, exc_tb):\n        if exc_type is not None:\n            return\n")
M("C11", "io_indent_skips_error_output", "api/io/io.py",
  "        return Indent([self._output, self._error_output], indent)", "        return Indent([self._output], indent)")
M("C11", "converter_drops_dark", "adapter/style_converter.py",
  "        if style.is_dark():\n            options.append(\"dark\")\n\n", "")
M("C11", "converter_swaps_colors", "adapter/style_converter.py",
  "PastelStyle(style.foreground_color, style.background_color, options)", "PastelStyle(style.background_color, style.foreground_color, options)")
M("C11", "add_style_ignores_bg", "formatter/ansi_formatter.py",
  "            style.tag,\n            pastel_style.foreground,\n            pastel_style.background,", "            style.tag,\n            pastel_style.foreground,\n            None,")
M("C11", "plain_add_style_noop", "formatter/plain_formatter.py",
  "        pastel_style = StyleConverter.convert(style)\n\n        self._formatter.add_style(\n            style.tag,", "        return\n        self._formatter.add_style(\n            style.tag,")
M("C11", "write_line_raw_no_newline", "api/io/output.py",
  'self._stream.write(to_str(string.rstrip("\\n") + "\\n"))', 'self._stream.write(to_str(string))')
M("C11", "indent_after_format", "api/io/output.py",
  '                    (" " * self._indent + s) if s else s for s in string.split("\\n")', '                    (" " * (self._indent + 1) + s) if s else s for s in string.split("\\n")')
M("C11", "indent_blank_lines_too", "api/io/output.py",
  '                    (" " * self._indent + s) if s else s for s in string.split("\\n")', '                    (" " * self._indent + s) for s in string.split("\\n")', expect="silent")
M("C11", "single_call_style_dropped", "formatter/ansi_formatter.py",
  "                return pastel_style.apply(string.replace(\"\\\\<\", \"<\"))", "                return string.replace(\"\\\\<\", \"<\")")
M("C11", "increment_sets", "api/io/indent.py",
  "                output._indent = output._indent + indent", "                output._indent = indent")
M("C11", "section_ignores_indent", "api/io/output.py", "        section.indent(self._indent)\n", "", expect="silent")

# ---- C19 ------------------------------------------------------------------------------------
M("C19", "two_writes_per_frame", "ui/components/progress_indicator.py",
  '            self._io.write("\\x0D\\x1B[2K" + message)', '            self._io.write("\\x0D\\x1B[2K")\n            self._io.write(message)')
M("C19", "no_join_on_exception", "ui/components/progress_indicator.py",
  "            self._auto_running.set()\n            self._auto_thread.join()\n\n            self._io.write_line(\"\")\n\n            raise", "            self._auto_running.set()\n\n            self._io.write_line(\"\")\n\n            raise")
M("C19", "no_stop_on_exception", "ui/components/progress_indicator.py",
  "            self._auto_running.set()\n            self._auto_thread.join()\n\n            self._io.write_line(\"\")\n\n            raise", "            self._auto_thread.join()\n\n            self._io.write_line(\"\")\n\n            raise")
M("C19", "only_exception_caught", "ui/components/progress_indicator.py",
  "        except BaseException:\n            # Whatever ends the body", "        except Exception:\n            # Whatever ends the body")
M("C19", "end_frame_before_join", "ui/components/progress_indicator.py",
  "        if self._auto_thread is not None:\n            self._auto_running.set()\n            self._auto_thread.join()\n\n        self._message = message\n\n        if reset_indicator:\n            self._current = 0\n\n        self._display()\n",
  "        self._message = message\n\n        if reset_indicator:\n            self._current = 0\n\n        self._display()\n\n        if self._auto_thread is not None:\n            self._auto_running.set()\n            self._auto_thread.join()\n")
M("C19", "no_reset_indicator", "ui/components/progress_indicator.py",
  "        self.finish(end_message, reset_indicator=True)", "        self.finish(end_message)")
M("C19", "throttle_halved", "ui/components/progress_indicator.py",
  "        self._update_time = current_time + self._interval\n        self._current += 1", "        self._update_time = current_time + self._interval // 2\n        self._current += 1")
M("C19", "plain_advance_redraws", "ui/components/progress_indicator.py",
  "        if not self._io.supports_ansi():\n            return\n\n        current_time", "        current_time")
M("C19", "exception_swallowed", "ui/components/progress_indicator.py",
  "            self._io.write_line(\"\")\n\n            raise\n", "            self._io.write_line(\"\")\n\n            return\n")

# ---- C20 ------------------------------------------------------------------------------------
M("C20", "empty_source_keyerror", "ui/components/exception_trace.py",
  "                if current_type is None:\n                    # The source is empty (or could not be read)\n                    current_type = self.TOKEN_DEFAULT\n\n", "",
  expect="silent")  # equivalent since fix 998a16b: _styled() returns an empty chunk as it is, whatever its type
M("C20", "token_error_escapes", "ui/components/exception_trace.py",
  "        except (tokenize.TokenError, SyntaxError):\n            # The source cannot be tokenized", "        except ZeroDivisionError:\n            # The source cannot be tokenized")
M("C20", "message_markup_unchecked", "ui/components/exception_trace.py",
  "        exception_message = _safe_markup(inspector.exception_message)\n        try:\n            exception_message = io.remove_format(exception_message)\n        except ValueError:",
  "        exception_message = inspector.exception_message\n        try:\n            exception_message = io.remove_format(exception_message)\n        except ZeroDivisionError:")
M("C20", "marker_off_by_one", "ui/components/exception_trace.py",
  "                if mark_line == i + 1:\n                    snippet = marker", "                if mark_line == i + 2:\n                    snippet = marker")
M("C20", "numbering_from_zero", "ui/components/exception_trace.py",
  '            line_number = "{:>{}}".format(i + 1, max_line_length)', '            line_number = "{:>{}}".format(i, max_line_length)')
M("C20", "window_shifted", "ui/components/exception_trace.py",
  "        offset = line - lines_before - 1\n", "        offset = line - lines_before\n")
M("C20", "ignore_applies_at_debug", "ui/components/exception_trace.py",
  "                and re.match(self._ignore, frame.filename)\n                and not io.is_debug()\n", "                and re.match(self._ignore, frame.filename)\n")
M("C20", "ignore_never_applies", "ui/components/exception_trace.py",
  "                and re.match(self._ignore, frame.filename)\n                and not io.is_debug()\n", "                and re.match(self._ignore, frame.filename)\n                and io.is_debug()\n")
M("C20", "message_first_line_only", "ui/components/exception_trace.py",
  '        exception_message = exception_message.replace("\\n", "\\n  ")\n', '        exception_message = exception_message.split("\\n")[0]\n')
M("C20", "simple_prints_class_only", "ui/components/exception_trace.py",
  '                    "error", _safe_markup(str(self._exception), "<error>{}</error>")', '                    "error", self._exception.__class__.__name__')
M("C20", "ascii_symbols_always", "ui/components/exception_trace.py",
  "        self._ui = self.UI[supports_utf8]", "        self._ui = self.UI[False]")
M("C20", "leading_space_dropped", "ui/components/exception_trace.py",
  "            if start[1] > current_col:\n                buffer += token_info.line[current_col : start[1]]", "            if start[1] > current_col + 1:\n                buffer += token_info.line[current_col : start[1]]")

# ---- C04 ------------------------------------------------------------------------------------
M("C04", "clamp_from_zero", "api/command/command.py",
  "        return min(max(int(status_code), 1), 255)", "        return min(max(int(status_code), 0), 255)")
M("C04", "no_upper_clamp", "api/command/command.py",
  "        return min(max(int(status_code), 1), 255)", "        return max(int(status_code), 1)")
M("C04", "falsy_is_none_only", "api/command/command.py",
  "        if not status_code:\n            return 0", "        if status_code is None:\n            return 0")
M("C04", "keyboard_interrupt_escapes_run", "console_application.py",
  "        except KeyboardInterrupt:\n            status_code = 1\n        except Exception as e:", "        except Exception as e:")
M("C04", "handled_event_ignored", "api/command/command.py",
  "            if event.is_handled():\n                return event.status_code\n", "")
M("C04", "exit_code_from_code_attr", "console_application.py",
  '        if not hasattr(e, "code") or not isinstance(e, int):\n            return 1', '        if not hasattr(e, "code"):\n            return 1')
M("C04", "simple_render_unchecked_markup", "ui/components/exception_trace.py",
  '            _write_line(\n                io,\n                _tagged(\n                    "error", _safe_markup(str(self._exception), "<error>{}</error>")\n                ),\n            )',
  '            io.write_line(\n                "<error>{}</error>".format(\n                    str(self._exception)\n                ),\n            )')
M("C20", "message_backslash_inside_tag", "ui/components/exception_trace.py",
  '    body = text.rstrip("\\\\")\n\n    return "<{0}>{1}</{0}>{2}".format(tag, body, text[len(body) :])',
  '    return "<{0}>{1}</{0}>".format(tag, text)')
M("C20", "chunk_backslash_before_next_tag", "ui/components/exception_trace.py",
  '        if len(kept) == len(line) or not chunk.startswith("<"):\n            return line + chunk\n',
  '        if True:\n            return line + chunk\n')
M("C19", "only_exception_and_interrupt_stop_the_spinner", "ui/components/progress_indicator.py",
  "        except BaseException:\n", "        except (Exception, KeyboardInterrupt):\n")
M("C04", "render_line_unchecked_markup", "ui/components/exception_trace.py",
  '        _write_line(io, "{}{}".format(indent * " ", _safe_markup(line)))', '        io.write_line("{}{}".format(indent * " ", line))')
M("C04", "handler_called_twice", "api/command/command.py",
  "        return getattr(handler, handler_method)(args, io, self)", "        getattr(handler, handler_method)(args, io, self)\n        return getattr(handler, handler_method)(args, io, self)")
M("C04", "errors_swallowed_silently", "console_application.py",
  "            with io.indent(0):\n                trace.render(io, simple=isinstance(e, CliKitException))\n", "")
M("C04", "status_zero_on_library_error", "console_application.py",
  "            status_code = self.exception_to_exit_code(e)", "            status_code = 0 if isinstance(e, CliKitException) else self.exception_to_exit_code(e)")

# ---- C09 ------------------------------------------------------------------------------------
M("C09", "quiet_read_from_all_tokens", "config/default_application_config.py",
  '        if args.has_option_token("--quiet") or args.has_option_token("-q"):', '        if args.has_token("--quiet") or args.has_token("-q"):')
M("C09", "option_tokens_ignore_dashdash", "args/argv_args.py",
  '            itertools.takewhile(lambda arg: arg != "--", self.tokens)', '            self.tokens')
M("C09", "quiet_leaves_error_output", "api/io/io.py",
  "        self._output.set_quiet(quiet)\n        self._error_output.set_quiet(quiet)", "        self._output.set_quiet(quiet)")
M("C09", "vv_is_verbose", "config/default_application_config.py",
  '        elif args.has_option_token("-vv"):\n            io.set_verbosity(VERY_VERBOSE)', '        elif args.has_option_token("-vv"):\n            io.set_verbosity(VERBOSE)')
M("C09", "ansi_not_forced", "config/default_application_config.py",
  "            output_formatter = error_formatter = AnsiFormatter(style_set, True)", "            output_formatter = error_formatter = AnsiFormatter(style_set)")
M("C09", "no_interaction_long_only", "config/default_application_config.py",
  '        if args.has_option_token("--no-interaction") or args.has_option_token("-n"):', '        if args.has_option_token("--no-interaction"):')
M("C09", "version_not_handled", "config/default_application_config.py",
  "            version.render(event.io)\n\n            event.handled(True)", "            version.render(event.io)")
M("C09", "help_short_only", "config/default_application_config.py",
  '        if args.has_option_token("-h") or args.has_option_token("--help"):', '        if args.has_option_token("-h"):')
M("C09", "no_ansi_only_stdout", "config/default_application_config.py",
  "            output_formatter = error_formatter = PlainFormatter(style_set)", "            output_formatter = PlainFormatter(style_set)\n            error_formatter = AnsiFormatter(style_set)")
M("C09", "noninteractive_still_reads", "api/io/input.py",
  "        if not self._interactive:\n            return default\n\n        return self._stream.read_line(length=length)", "        return self._stream.read_line(length=length)")
M("C09", "debug_gate_off_by_one", "api/io/output.py",
  "        if flags & DEBUG:\n            return self._verbosity >= DEBUG", "        if flags & DEBUG:\n            return self._verbosity >= VERY_VERBOSE")

# ---- C17 ------------------------------------------------------------------------------------
M("C17", "lenient_forced_off_after_help", "resolver/help_resolver.py",
  "            config._lenient_args_parsing = lenient_args_parsing", "            config.disable_lenient_args_parsing()")
M("C17", "lenient_left_on_after_failed_help", "resolver/help_resolver.py",
  "        try:\n            return super(HelpResolver, self).create_resolved_command(result)\n        finally:\n            # Restore the setting of the command, whatever it was\n            config._lenient_args_parsing = lenient_args_parsing",
  "        resolved = super(HelpResolver, self).create_resolved_command(result)\n        config._lenient_args_parsing = lenient_args_parsing\n        return resolved")
M("C17", "border_singleton_shared", "ui/style/border_style.py",
  "        return copy.copy(cls._none)", "        return cls._none")
M("C17", "ascii_singleton_shared", "ui/style/border_style.py",
  "        return copy.copy(cls._ascii)", "        return cls._ascii")
M("C17", "table_style_singleton", "ui/style/table_style.py",
  "    def solid(cls):  # type: () -> TableStyle\n        style = TableStyle()", "    def solid(cls):  # type: () -> TableStyle\n        if cls._solid is None:\n            cls._solid = TableStyle()\n        style = cls._solid")
M("C17", "snippet_cache_by_line_only", "ui/components/exception_trace.py",
  "                        cache_key = (frame, 2, 2, io.supports_utf8())\n",
  "                        cache_key = ((frame.function, frame.lineno), 2, 2, io.supports_utf8())\n")
M("C20", "snippet_cache_ignores_utf8", "ui/components/exception_trace.py",
  "                        cache_key = (frame, 2, 2, io.supports_utf8())\n",
  "                        cache_key = (frame, 2, 2)\n")
M("C20", "report_line_fallback_removed", "ui/components/exception_trace.py",
  "    try:\n        _write_whole_line(io, line)\n    except ValueError:\n        _write_whole_line(io, _strip_tags(line))\n", "    _write_whole_line(io, line)\n")
M("C17", "default_lists_handed_out", "api/args/format/argument.py",
  "        if isinstance(self._default, list):\n            # A copy: the list ends up in the hands of user code as the value it parsed\n            return list(self._default)\n\n", "")
M("C17", "render_consumes_header", "ui/components/table.py",
  "                rows.pop(0),\n", "                (self._header_row.pop(0), self._header_row.insert(0, 'seen'), rows.pop(0))[2],\n")
M("C17", "parser_options_leak", "args/default_args_parser.py",
  "        self._arguments = OrderedDict()\n        self._options = OrderedDict()\n\n        arguments = OrderedDict()",
  "        self._arguments = OrderedDict()\n\n        arguments = OrderedDict()")
M("C17", "quiet_sticks_to_application", "config/default_application_config.py",
  '        if args.has_option_token("--quiet") or args.has_option_token("-q"):\n            io.set_quiet(True)',
  '        if args.has_option_token("--quiet") or args.has_option_token("-q") or getattr(self, "_was_quiet", False):\n            self._was_quiet = True\n            io.set_quiet(True)')

# ---- reverts of later fixes -------------------------------------------------------------------
M("C06", "format_shares_names_list", "api/args/format/args_format.py",
  "        self._command_names = list(builder.get_command_names(False))", "        self._command_names = builder.get_command_names(False)")
M("C09", "section_ignores_quiet", "api/io/output.py",
  "        section.set_quiet(self._quiet)\n        section.set_verbosity(self._verbosity)\n", "")
M("C16", "section_ignores_verbosity_equivalent", "api/io/output.py",
  "        section.set_verbosity(self._verbosity)\n", "", expect="silent")  # the bar resolves its format from the section's own verbosity

M("C17", "help_token_not_restored", "resolver/help_resolver.py",
  "                args.tokens.insert(0, self._help_command_name)", "                pass")


# ---- repairs of the sixth round, undone --------------------------------------------------------------
M("C12", "config_event_not_initialised", "api/event/config_event.py",
  "        super(ConfigEvent, self).__init__()\n\n", "")
M("C04", "report_needs_working_directory", "ui/components/exception_trace.py",
  "        try:\n            cwd = os.getcwd()\n        except OSError:\n            # The current directory no longer exists: paths stay absolute\n            cwd = None\n",
  "        cwd = os.getcwd()\n")
M("C20", "report_needs_working_directory", "ui/components/exception_trace.py",
  "        try:\n            cwd = os.getcwd()\n        except OSError:\n            # The current directory no longer exists: paths stay absolute\n            cwd = None\n",
  "        cwd = os.getcwd()\n")
M("C16", "format_kept_across_start_max", "ui/components/progress_bar.py",
  "            self._format = None\n\n        self.display()", "\n        self.display()")
M("C17", "help_alias_rewrites_raw_args_equivalent_on_default_config", "resolver/help_resolver.py",
  "args.tokens and args.tokens[0] == self._help_command_name", "args.tokens and (args.tokens[0] == self._help_command_name)", expect="silent")

def run_one(m, runs):
    prop, name, path, old, new, expect = m
    tmp = tempfile.mkdtemp(prefix="dsim-mut-")
    try:
        src = os.path.join(tmp, "src")
        shutil.copytree("/repo/src", src, ignore=shutil.ignore_patterns("__pycache__"))
        f = os.path.join(src, "clikit", path)
        text = open(f).read()
        if old not in text:
            return "STALE (pattern not found)"
        open(f, "w").write(text.replace(old, new, 1))
        env = dict(os.environ, CLIKIT_SRC=src, DSIM_OUT=os.path.join(tmp, "out"))
        env.pop("PYTHONHASHSEED", None)
        env.pop("PYTHONPYCACHEPREFIX", None)
        cmd = [os.path.join(VERIF, "check"), prop, "quick"]
        if runs:
            cmd += ["--runs", str(runs)]
        p = subprocess.run(cmd, env=env, stdout=subprocess.PIPE, stderr=subprocess.STDOUT,
                           universal_newlines=True, timeout=1800)
        viol = [l for l in p.stdout.splitlines() if l.startswith("VIOLATION") or l.startswith("  oracle=")]
        if expect == "caught":
            ok = p.returncode == 1
        else:
            ok = p.returncode == 0
        return "%s rc=%d %s" % ("ok  " if ok else "FAIL", p.returncode,
                                 "; ".join(v.strip()[:110] for v in viol if v.startswith("  oracle"))[:400]
                                 if p.returncode != 2 else p.stdout[-600:])
    finally:
        shutil.rmtree(tmp, ignore_errors=True)


def main(argv):
    runs = None
    only = None
    props = []
    it = iter(argv)
    for a in it:
        if a == "--runs":
            runs = int(next(it))
        elif a == "--only":
            only = next(it)  # substring of the mutant's name
        else:
            props.append(a.upper())
    bad = 0
    for m in MUTANTS:
        if props and m[0] not in props:
            continue
        if only and only not in m[1]:
            continue
        r = run_one(m, runs)
        print("%s %-28s expect=%-6s %s" % (m[0], m[1], m[5], r))
        sys.stdout.flush()
        if not r.startswith("ok"):
            bad += 1
    return 1 if bad else 0


if __name__ == "__main__":
    sys.exit(main(sys.argv[1:]))
