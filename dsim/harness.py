"""Harness protocol shared by all property modules (dsim.props.cXX).

A property module exposes

    PROP            "C16"
    LEVEL           one of the MANIFEST categories
    RUNS            {"quick": n, "thorough": n}       seeded runs per tier
    INFO            dict: rule, components_real, components_stubbed, assumptions, nontrivial_rule
    setup()         optional, once per process (module-attribute seams that never change)
    gen(streams, tier) -> scenario      JSON-able dict; every random choice is made here
    execute(scenario) -> Result         pure function of the scenario and the code under test
    sweep(scenario, tier) -> [scenario] optional: derived scenarios (fault at every point, ...)
    simplify(scenario) -> iterable      optional: smaller candidate scenarios for the shrinker
    OPS_KEYS        names of list-valued scenario entries the generic ddmin may shorten
    condition(scenario, violation) -> dict   optional: facts used to match known findings

``execute`` must be total on every scenario the shrinker can produce (sub-lists of ops): an
operation that is not applicable becomes a no-op.
"""


class Result(object):
    __slots__ = ("violations", "events", "nontrivial", "faults", "probes", "sim_us", "states",
                 "steps", "inconclusive", "digest", "observed")

    def __init__(self):
        self.violations = []   # list of dicts {"oracle","where","detail"}
        self.events = []       # anything repr-able and address-free; hashed into the digest
        self.nontrivial = False
        self.faults = {}       # kind -> times fired
        self.probes = {}       # name -> hits
        self.sim_us = 0
        self.states = set()
        self.steps = 0
        self.inconclusive = False
        self.digest = None
        self.observed = None   # optional dict shown with evidence samples (e.g. the recorded schedule)

    def violate(self, oracle, where, detail):
        self.violations.append({"oracle": oracle, "where": where, "detail": str(detail)[:600]})

    def fault(self, kind, n=1):
        self.faults[kind] = self.faults.get(kind, 0) + n

    def probe(self, name, n=1):
        self.probes[name] = self.probes.get(name, 0) + n


def signature(v):
    return (v["oracle"], v["where"])


class HarnessError(Exception):
    """The simulator itself is wrong or met something it does not model.  Exit 2, never 0/1."""
