"""Seeded generator of Python source files whose execution raises a given exception through a call
chain, plus exception specs.  Shared by C20 (trace rendering) and C04 (handler code origins).

A generated module defines ``entry(exc)``; calling it walks ``depth`` frames (with optional
self-recursion so that repeated frames are folded by the renderer) and raises ``exc`` from the
innermost one.  The generator records, per line, whether the line is made of single-line tokens
and whether it contains markup-like text, so the snippet oracle knows which lines must be shown
verbatim.
"""

MARKUPISH = ["# see <info>docs</info> for details", "label = '<b>bold</b>'", "pattern = '<fg=red>x</>'",
             "# closing </comment> without opening", "weird = 'a < b > c'", "tag = '<unknown>'",
             "tail = 'done</warning>'", "head = '<warning>mind the' \\\n        ' gap</warning>'"]
BAD_MARKUP = ["broken = '<info>a</comment>'", "colour = '<fg=nosuchcolour>x</>'", "# <error>unclosed", "esc = '\\\\<b>'", "esc2 = r'x \\</info> y'",
              "# opening only: <fg=nosuchcolour> never closed", "tint = '<bg=nope>'"]
PLAIN_FILL = ["total = 0", "pair = f\"{n}\\\\{n}\"  # a backslash right in front of a replacement field", "drive = 'C:'  # a comment ending with a backslash: C:\\", "# lone trailing backslash \\", "joined = 1 + \\\n        2", "path = 'a' \\\n        'b'  # explicit line joining", "count = 1 + 1  # count", "name = 'été'", "values = [1, 2.5, None, True]", "pass",
              "text = \"double 'quoted'\"", "if len(sys.argv) > 99:\n        limit = 10", "data = {'k': (1, 2)}",
              "flag = not False and (1 or 2)", "x = 1\t# comment after a tab", "y = [\t1,\t2]"]


# what may follow the failing statement on its line
RAISE_SUFFIX = {"backslash_comment": "  # see C:\\tmp\\", "markup_comment": "  # <info>tagged</info> </b>",
                "formfeed_comment": "  # split\x0chere", "tab_comment": "\t# after a tab", "semicolon": "; never = 1"}


class Source(object):
    def __init__(self):
        self.lines = []       # text without newline
        self.multi = set()    # 1-based numbers of lines inside multi-line tokens
        self.markup = set()   # lines with markup-like text
        self.badmarkup = set()

    def add(self, text, multi=False, markup=False, bad=False):
        for t in text.split("\n"):
            self.lines.append(t)
            n = len(self.lines)
            if multi:
                self.multi.add(n)
            if markup:
                self.markup.add(n)
            if bad:
                self.badmarkup.add(n)
        return len(self.lines)

    def text(self):
        return "\n".join(self.lines) + "\n"


def gen_module(r, depth, recursion, style):
    """style: dict of booleans: preamble_docstring, markup, bad_markup, tabs, multiline_call, raise_pos, no_trailing_lines"""
    s = Source()
    if style.get("leading_continuation"):
        s.add("\\")  # legal: the first physical line is joined with the next one
    if style.get("coding"):
        s.add("# -*- coding: utf-8 -*-")
    if style.get("preamble_docstring"):
        s.add('"""Module docstring', multi=True)
        s.add("spanning several lines with a <info>tag</info> inside", multi=True, markup=True)
        s.add('"""', multi=True)
    for _ in range(r.randint(0, 3)):
        s.add("# " + r.pick(["comment", "äöü comment", "TODO: nothing", "x" * 30]))
    if style.get("odd_separators"):
        # legal in Python source, but line boundaries for str.splitlines(): form feed, FS/GS, NEL, LS/PS
        s.add(r.pick(["\x0c", "# page\x0cbreak", "# a\x1cb", "# unit\x1d", "# nel\x85here", "# ls\u2028ps\u2029"]))
    s.add("import sys")
    s.add("")
    names = ["f%d" % i for i in range(depth)]
    for i, name in enumerate(names):
        last = i == depth - 1
        s.add("def %s(exc, n=%d):" % (name, recursion if i == 0 else 0))
        for _ in range(r.randint(0, 3)):
            k = r.random()
            if style.get("markup") and k < 0.3:
                s.add("    " + r.pick(MARKUPISH), markup=True)
            elif style.get("bad_markup") and k < 0.45:
                s.add("    " + r.pick(BAD_MARKUP), markup=True, bad=True)
            elif style.get("multiline_string") and k < 0.6:
                s.add('    doc = """first', multi=True)
                s.add("    second line of the string", multi=True)
                s.add('    third"""', multi=True)
            else:
                s.add("    " + r.pick(PLAIN_FILL))
        if i == 0 and recursion:
            s.add("    if n > 0:")
            s.add("        return %s(exc, n - 1)" % name)
        if last:
            if style.get("multiline_call"):
                s.add("    raise_it(")
                s.add("        exc,")
                s.add("    )")
            elif style.get("raise_variant") == "continuation":
                s.add("    raise \\")        # explicit line joining: the failing line ends with a backslash
                s.add("        exc")
            elif style.get("raise_variant"):
                s.add("    raise exc" + RAISE_SUFFIX[style["raise_variant"]], markup=style["raise_variant"] == "markup_comment")
            else:
                s.add("    raise exc")
        else:
            if style.get("call_suffix") and not style.get("multiline_call"):
                s.add("    return %s(exc)%s" % (names[i + 1], RAISE_SUFFIX[style["call_suffix"]]),
                      markup=style["call_suffix"] == "markup_comment")
            elif style.get("multiline_call") and r.chance(0.5):
                s.add("    return %s(" % names[i + 1])
                s.add("        exc,")
                s.add("    )")
            else:
                s.add("    return %s(exc)" % names[i + 1])
        if not (last and style.get("no_trailing_lines")):
            s.add("")
    if style.get("multiline_call"):
        # helper is defined after use; resolved at call time
        if style.get("no_trailing_lines"):
            # keep the raise on the last line of the file: define the helper above instead
            helper = ["def raise_it(exc):", "    raise exc", ""]
            idx = s.lines.index("import sys") + 2
            # insert and shift bookkeeping
            s.lines[idx:idx] = helper
            s.multi = {n + 3 if n > idx else n for n in s.multi}
            s.markup = {n + 3 if n > idx else n for n in s.markup}
            s.badmarkup = {n + 3 if n > idx else n for n in s.badmarkup}
        else:
            s.add("def raise_it(exc):")
            s.add("    raise exc")
            s.add("")
    s.add_entry = "f0"
    if not style.get("no_trailing_lines"):
        s.add("def entry(exc):")
        s.add("    return f0(exc)")
        for _ in range(r.randint(0, 6)):
            s.add("# trailing " + r.pick(["line", "zeile", "ligne"]))
    return s


MESSAGES = ["boom", "", "two\nlines", "trailing newline\n", "Ünïcödé ✓ message", "with <info>markup</info> inside",
            "closing </info> only", "mis <info>nested</comment> tags", "bad <fg=nosuchcolour>colour</>",
            "lone < sign and > too", "escaped \\<b> tag", "percent %s {braces}", "x" * 300,
            "The \"--</error>\" option does not exist.", "<error>already styled</error>", "tab\there", "escaped \\</info> closing tag",
            "never closed <fg=chartreuse> colour", "<bg=nope>", "option <options=sparkle> unknown",
            "<info>valid tag left open", "<comment>still open", "page one\x0cpage two", "unit\x1fsep and nel\x85here",
            "<class 'm.build.<locals>.Plugin'> is not callable", "in <module>: <lambda> failed near <genexpr>",
            "cannot open C:\\temp\\", "ends with two backslashes \\\\"]


def interacting_pair(r):
    """(earlier message, later message): the first leaves a valid tag open, the second closes it -
    harmless apart, confusing for anything that keeps formatter state from one report to the next."""
    t = r.pick(["info", "comment", "error", "b", "question"])
    return "<%s>left open by an earlier report" % t, r.pick(["x </%s> y", "closing </%s> only", "<b>bold</%s>"]) % t

TYPES = ["ValueError", "KeyError", "RuntimeError", "OSError", "AssertionError", "UnicodeDecodeError",
         "Foreign", "WithIntCode", "WithStrCode", "WithZeroCode", "WithFalseCode", "WithHugeCode", "StrRaises", "CliKitLike", "NoSuchOption", "CannotParse",
         "CannotResolve", "TypeError", "ZeroDivisionError", "LookupError", "StopIteration", "Exception"]


class Foreign(Exception):
    def __init__(self, text):
        Exception.__init__(self)
        self.text = text

    def __str__(self):
        return self.text


class WithIntCode(Exception):
    code = 77


class WithStrCode(Exception):
    code = "E42"


class WithZeroCode(Exception):
    code = 0


class WithFalseCode(Exception):
    code = False


class WithHugeCode(Exception):
    code = 100000


class Sub(ValueError):
    pass


def make_exception(spec):
    """spec = {"type": name, "msg": text, "cause": spec|None, "context": spec|None}"""
    from clikit.api.args.exceptions import CannotParseArgsException, NoSuchOptionException
    from clikit.api.exceptions import CliKitException
    from clikit.api.resolver.exceptions import CannotResolveCommandException

    t, m = spec["type"], spec["msg"]
    if t == "FromWrite":
        # the handler's own formatted write fails: the text is markup the formatter rejects
        return ValueError("Incorrectly nested style tag found.")
    if t == "KeyError":
        e = KeyError(m)
    elif t == "OSError":
        e = OSError(5, m)
    elif t == "UnicodeDecodeError":
        e = UnicodeDecodeError("utf-8", b"\xff\xfe", 0, 1, m or "invalid start byte")
    elif t == "AssertionError":
        e = AssertionError(m) if m else AssertionError()
    elif t == "Foreign":
        e = Foreign(m)
    elif t == "WithIntCode":
        e = WithIntCode(m)
    elif t == "WithStrCode":
        e = WithStrCode(m)
    elif t in ("WithZeroCode", "WithFalseCode", "WithHugeCode"):
        e = globals()[t](m)
    elif t == "StrRaises":
        e = Sub(m)
    elif t == "CliKitLike":
        class CliKitLike(RuntimeError, CliKitException):
            pass
        e = CliKitLike(m)
    elif t == "NoSuchOption":
        e = NoSuchOptionException(m or "nope")
    elif t == "CannotParse":
        e = CannotParseArgsException(m)
    elif t == "CannotResolve":
        e = CannotResolveCommandException(m)
    else:
        e = getattr(__import__("builtins"), t)(m)
    if spec.get("cause"):
        e.__cause__ = make_exception(spec["cause"])
    if spec.get("context"):
        e.__context__ = make_exception(spec["context"])
    return e


def gen_exc_spec(r, depth=0):
    spec = {"type": r.pick(TYPES), "msg": r.pick(MESSAGES), "cause": None, "context": None}
    if depth < 2 and r.chance(0.25):
        spec["cause"] = gen_exc_spec(r, depth + 1)
    elif depth < 2 and r.chance(0.15):
        spec["context"] = gen_exc_spec(r, depth + 1)
    return spec
