"""Simulated streams implementing clikit's own OutputStream / InputStream interfaces.

Every write/read is an event in a shared ``EventLog`` (global sequence number, actor, virtual
time, payload).  Fault plans are explicit data in the scenario, never drawn here.
"""
from clikit.api.io.input_stream import InputStream
from clikit.api.io.output_stream import OutputStream


class EventLog(object):
    def __init__(self, clock=None):
        self.events = []
        self.clock = clock
        self.actor = "main"  # the scheduler overwrites this with the running thread's name

    frozen = False  # set when a run is torn down: unwinding threads must not extend the history

    def add(self, kind, *payload):
        if self.frozen:
            return None
        t = self.clock.us if self.clock is not None else 0
        ev = (len(self.events), self.actor, t, kind) + payload
        self.events.append(ev)
        return ev

    def __len__(self):
        return len(self.events)


class SimOutputStream(OutputStream):
    """OutputStream whose far side is an optional ``term.Screen``.

    fault plan (all optional):
      fail_at   : set of 0-based write indexes at which ``write`` raises IOError (nothing written)
      close_after: after this many successful writes the stream is closed (writes raise IOError)
    hooks:
      on_write(stream, data) is called *before* the data is applied (scheduler yield / latency).
    """

    def __init__(self, name, log, ansi=True, utf8=True, screen=None, fail_at=(), close_after=None,
                 on_write=None):
        self.name = name
        self.log = log
        self._ansi = ansi
        self._utf8 = utf8
        self.screen = screen
        self.fail_at = set(fail_at)
        self.close_after = close_after
        self.on_write = on_write
        self.writes = []  # (seq, data)
        self.n_calls = 0
        self.faults_fired = 0
        self._closed = False
        self.after_write = None
        self.max_calls = 50000

    def write(self, string):
        idx = self.n_calls
        self.n_calls += 1
        if self.n_calls > self.max_calls:
            raise Runaway("more than %d writes to %s" % (self.max_calls, self.name))
        if self.on_write is not None:
            self.on_write(self, string)
        if self._closed or (self.close_after is not None and len(self.writes) >= self.close_after):
            self._closed = True
            self.faults_fired += 1
            self.log.add("write_fault", self.name, "closed")
            raise IOError("simulated: stream %s is closed" % self.name)
        if idx in self.fail_at:
            self.faults_fired += 1
            self.log.add("write_fault", self.name, "EPIPE")
            raise IOError(32, "simulated: broken pipe on %s" % self.name)
        ev = self.log.add("write", self.name, string)
        if ev is None:
            return
        self.writes.append((ev[0], string))
        if self.screen is not None:
            self.screen.feed(string)
        if self.after_write is not None:
            self.after_write(self, ev)

    def flush(self):
        self.log.add("flush", self.name)
        if self._closed:
            raise IOError("simulated: stream %s is closed" % self.name)

    def supports_ansi(self):
        return self._ansi

    def supports_utf8(self):
        return self._utf8

    def close(self):
        self._closed = True

    def is_closed(self):
        return self._closed

    def data(self):
        return "".join(d for _, d in self.writes)


class Runaway(BaseException):
    """A simulated stream saw more calls than any bounded scenario can make: the code under test
    is in a loop that never reaches a read.  BaseException, so retry loops cannot swallow it."""


class AskedForever(BaseException):
    """Raised by SimInputStream when the read budget after end of input is exhausted.

    Derives from BaseException so that it propagates out of ``except Exception`` retry loops:
    non-termination is decided by counting reads, never by wall-clock."""


class SimInputStream(InputStream):
    """The user.  ``lines`` are raw strings as typed (normally ending in "\\n").

    ``read_line(length)`` returns at most ``length`` characters of the current line (short read
    for over-long lines, the rest arrives with the next call - as file.readline(n) behaves); at
    end of input it returns "" and counts the read against ``eof_budget``.
    """

    def __init__(self, log, lines, eof_budget=8):
        self.log = log
        self.pending = list(lines)
        self.reads = 0
        self.reads_after_eof = 0
        self.lines_consumed = 0
        self.eof_budget = eof_budget
        self._closed = False
        self._partial = None

    def read_line(self, length=None):
        if self._closed:
            raise IOError("simulated: input closed")
        self.reads += 1
        if self._partial is None and not self.pending:
            self.reads_after_eof += 1
            self.log.add("read_eof", self.reads_after_eof)
            if self.reads_after_eof > self.eof_budget:
                self.log.add("asked_forever")
                raise AskedForever()
            return ""
        if self._partial is None:
            self._partial = self.pending.pop(0)
            self.lines_consumed += 1
        cur = self._partial
        if length is not None and length >= 0 and len(cur) > length:
            out, self._partial = cur[:length], cur[length:]
        else:
            out, self._partial = cur, None
        self.log.add("read", out)
        return out

    def read(self, length):
        # character reads are only used by the stty/autocomplete path, which is stubbed out
        return self.read_line(length)

    def close(self):
        self._closed = True

    def is_closed(self):
        return self._closed
