"""Seeded generator of application specs (JSON-able), builder of real ConsoleApplication objects
with scripted handler / listener actors, and canonical command lines.

spec = {"name", "version", "commands": [cmd], "shared_parser": bool}
cmd  = {"name", "aliases", "args": [[name, flags, default]], "opts": [[long, short, flags, default]],
        "subs": [cmd], "default": bool, "anonymous": bool, "lenient": None|True|False, "hid": int}

Handlers are *actors*: tiny interpreters of a scripted step list (see ``Actor``); they record every
invocation (which handler, the parsed arguments and options it received, the IO state it saw).
Actor code lives in this real, source-available file so that "source unavailable" is only ever an
injected fault, never an accident of the harness.
"""
from . import fmtgen as F

CMD_NAMES = ["server", "add", "remove", "list", "show", "run", "sync", "build"]
SUB_NAMES = ["start", "stop", "status", "create", "drop"]
LONGS = ["alpha", "beta", "gamma", "delta", "force", "level", "name", "tag", "dry-run", "count"]
SHORTS = list("abcdfgklmtxyz")
ARGS = ["src", "dst", "target", "path", "item"]


def _opts(r, used_long, used_short, n):
    out = []
    for _ in range(n):
        cand = [x for x in LONGS if x not in used_long]
        if not cand:
            break
        ln = r.pick(cand)
        used_long.add(ln)
        sh = None
        if r.chance(0.5):
            sc = [x for x in SHORTS if x not in used_short]
            if sc:
                sh = r.pick(sc)
                used_short.add(sh)
        mode = r.weighted([(F.O_NO, 3), (F.O_REQ, 3), (F.O_OPT, 1), (F.O_MULTI, 1)])
        flags = mode
        default = None
        if mode != F.O_NO:
            flags |= r.weighted([(F.O_STR, 4), (F.O_INT, 2), (F.O_FLOAT, 1), (F.O_BOOL, 1)])
            if mode == F.O_OPT:
                default = {"str": "dflt", "int": "7", "float": "0.5", "bool": "true"}[F.opt_type(flags)]
        out.append([ln, sh, flags, default])
    return out


def _args(r, used, n, tail_multi):
    out = []
    has_opt = False
    for _ in range(n):
        cand = [x for x in ARGS if x not in used]
        if not cand:
            break
        name = r.pick(cand)
        used.add(name)
        kind = F.A_OPT if has_opt else r.pick([F.A_REQ, F.A_REQ, F.A_OPT])
        has_opt = has_opt or kind == F.A_OPT
        flags = kind | r.weighted([(F.A_STR, 4), (F.A_INT, 2), (F.A_FLOAT, 1), (F.A_BOOL, 1)])
        out.append([name, flags, None])
    if tail_multi:
        out.append(["rest", F.A_OPT | F.A_MULTI | F.A_STR, None])
    return out


def gen_cmd(r, name, used_long, used_short, used_args, depth, counter, tail_multi=True, subs_ok=True):
    counter[0] += 1
    cmd = {"name": name, "aliases": [name[:2] + "x"] if r.chance(0.2) else [], "hid": counter[0],
           "opts": _opts(r, set(used_long), set(used_short), r.randint(0, 3)),
           "args": [], "subs": [], "default": False, "anonymous": False, "lenient": None}
    ul = set(used_long) | {o[0] for o in cmd["opts"]}
    us = set(used_short) | {o[1] for o in cmd["opts"] if o[1]}
    if subs_ok and depth < 2 and r.chance(0.35):
        names = r.sample(SUB_NAMES, r.randint(1, 3))
        for i, sn in enumerate(names):
            # a default sub-command is a leaf: whether resolution continues into the default
            # sub-commands of a default sub-command is C03's subject (not claimed)
            is_default = i == 0 and r.chance(0.4)
            sub = gen_cmd(r, sn, ul, us, set(used_args), depth + 1, counter, tail_multi,
                          subs_ok=depth < 1 and not is_default)
            if is_default:
                sub["default"] = True
                if r.chance(0.3):
                    sub["anonymous"] = True
            cmd["subs"].append(sub)
    else:
        cmd["args"] = _args(r, set(used_args), r.randint(0, 2), tail_multi)
    return cmd


def gen_app(r, tail_multi=True, n_cmds=None):
    counter = [0]
    names = r.sample(CMD_NAMES, n_cmds or r.randint(1, 4))
    cmds = [gen_cmd(r, n, set(), set(), set(), 0, counter, tail_multi) for n in names]
    return {"name": r.pick(["app", "my-tool", "cli_kit"]), "version": r.pick(["1.0.0", "0.6.2", "2.1"]),
            "commands": cmds, "shared_parser": False}


def leaves(spec):
    """[(path_names, cmd, chain)] for every command that can be addressed by name."""
    out = []

    def rec(cmd, path, chain):
        if cmd["anonymous"]:
            return
        p = path + [cmd["name"]]
        ch = chain + [cmd]
        out.append((p, cmd, ch))
        for s in cmd["subs"]:
            rec(s, p, ch)

    for c in spec["commands"]:
        rec(c, [], [])
    return out


def resolved_target(cmd):
    """Command that actually handles a line addressing ``cmd`` (first default sub-command, recursively)."""
    for s in cmd["subs"]:
        if s["default"]:
            return s
    return cmd


# ---- values --------------------------------------------------------------------------------
TYPED = {"str": ["foo", "bar", "Zürich", "a-b"], "int": ["42", "7", "-3"], "float": ["1.5", "2.25"], "bool": ["true", "false"]}


def typed_value(t, text):
    if t == "int":
        return int(text)
    if t == "float":
        return float(text)
    if t == "bool":
        return text == "true"
    return text


def gen_line(r, chain, extra_rest=0, fill_all=False):
    """Canonical command line for the command at the end of ``chain`` (one spelling per option).
    Returns (tokens_after_path, expected_arguments, expected_options_set)."""
    opts = []
    for c in chain:
        opts.extend(c["opts"])
    cmd = chain[-1]
    toks = []
    exp_opts = {}
    for ln, sh, flags, default in opts:
        if not r.chance(0.5):
            continue
        if flags & F.O_NO:
            toks.append("-" + sh if sh and r.chance(0.5) else "--" + ln)
            exp_opts[ln] = True
        else:
            t = F.opt_type(flags)
            reps = r.randint(1, 2) if flags & F.O_MULTI else 1
            vals = []
            for _ in range(reps):
                v = r.pick(TYPED[t])
                if v.startswith("-"):
                    v = v[1:]  # a value starting with "-" is not canonical as a separate token
                vals.append(v)
                toks.append("--%s=%s" % (ln, v))
            exp_opts[ln] = [typed_value(t, v) for v in vals] if flags & F.O_MULTI else typed_value(t, vals[0])
    pos = []
    exp_args = {}
    for name, flags, default in cmd["args"]:
        t = F.arg_type(flags)
        if flags & F.A_MULTI:
            k = r.randint(0, 2) + extra_rest
            vals = [r.pick(["r1", "r2", "more"]) for _ in range(k)]
            if vals:
                exp_args[name] = vals
                pos.extend(vals)
        elif flags & F.A_REQ or fill_all or r.chance(0.6):
            v = r.pick(TYPED[t])
            if v.startswith("-"):
                v = v[1:]
            exp_args[name] = typed_value(t, v)
            pos.append(v)
        else:
            break
    # options before the positionals (canonical; mixing is C01's subject)
    return toks + pos, exp_args, exp_opts


# ---- actors ---------------------------------------------------------------------------------
class HandlerFailure(Exception):
    """Raised by actors for outcome specs of kind 'raise' with the harness's own type."""


class Actor(object):
    """Scripted handler.  ``script`` is a list of steps:
         ["out", text, flags] / ["err", text, flags]   write a line
         ["indent", n, [steps]]                        nested steps inside io.indent(n)
         ["ask", default]                              ask a confirmation question
         ["deep", depth]                               recurse before going on (call depth)
         ["return", value] / ["raise", exc_spec] / ["raise_via", callable_name]
       Every invocation is recorded in ``log``."""

    def __init__(self, hid, script, log, raiser=None):
        self.hid = hid
        self.script = script
        self.log = log
        self.raiser = raiser  # callable(exc) that raises exc from somewhere else (simulated file, exec)

    def handle(self, args, io, command):
        rec = {"hid": self.hid, "command": command.full_name if command is not None else None,
               "arguments": dict(args.arguments(False)), "options": dict(args.options(False)),
               "quiet": io.is_quiet(), "verbosity": io.verbosity, "interactive": io.is_interactive(),
               "answers": []}
        self.log.append(rec)
        return self._run(self.script, args, io, rec)

    def _run(self, steps, args, io, rec):
        for st in steps:
            k = st[0]
            if k == "out":
                io.write_line(st[1], st[2])
            elif k == "err":
                io.error_line(st[1], st[2])
            elif k == "indent":
                with io.indent(st[1]):
                    r = self._run(st[2], args, io, rec)
                    if r is not _NOTHING:
                        return r
            elif k == "ask":
                from clikit.ui.components import ConfirmationQuestion
                rec["answers"].append(ConfirmationQuestion("Proceed?", st[1]).ask(io))
            elif k == "section":
                sec = io.section()
                sec.write_line(st[1])
                sec.output.overwrite(st[2])
            elif k == "indicator":
                from clikit.ui.components import ProgressIndicator
                ind = ProgressIndicator(io, interval=0)
                ind.start("spin start")
                ind.advance()
                ind.set_message("spin more")
                ind.finish("spin done")
            elif k == "progress":
                from clikit.ui.components import ProgressBar
                bar = ProgressBar(io, 3, 0)
                bar.start()
                bar.advance()
                bar.advance(2)
                bar.finish()
                io.error_line("")
            elif k == "stateful":
                # state kept on the handler object itself
                self.uses = getattr(self, "uses", 0) + 1
                rec["uses"] = self.uses
                io.write_line("use #%d of this handler object" % self.uses)
            elif k == "close_io":
                io.close()  # the handler is done with the console (it detaches, it redirected its output)
            elif k == "mutate_args":
                # an ordinary thing for user code to do with a list it was handed: extend it
                for v in list(args.arguments().values()) + list(args.options().values()):
                    if isinstance(v, list):
                        v.append("leaked")
            elif k == "readline":
                rec.setdefault("lines", []).append(io.read_line(default=st[1]))
            elif k == "deep":
                r = self._deep(st[1], st[2], args, io, rec)
                if r is not _NOTHING:
                    return r
            elif k == "return":
                return st[1]
            elif k == "raise":
                from .srcgen import make_exception
                if isinstance(st[1], dict) and st[1]["type"] == "FromWrite":
                    # the failure comes out of a formatted write of the handler
                    (io.error_line if st[1].get("stream") == "err" else io.write_line)(st[1]["msg"])
                    raise make_exception(st[1])  # (only if the formatter took the text after all)
                exc = make_exception(st[1]) if isinstance(st[1], dict) else st[1]
                if st[1] == "KeyboardInterrupt":
                    raise KeyboardInterrupt()
                if st[1] == "RecursionError-real":
                    return self._forever(0)
                if self.raiser is not None:
                    self.raiser(exc)
                raise exc
        return _NOTHING

    def _forever(self, n):
        # real unbounded recursion: the interpreter raises RecursionError somewhere down here
        return self._forever(n + 1) + 1

    def _deep(self, n, steps, args, io, rec):
        if n > 0:
            return self._deep(n - 1, steps, args, io, rec)
        return self._run(steps, args, io, rec)


class _Nothing(object):
    def __repr__(self):
        return "<fell off the script>"


_NOTHING = _Nothing()


class ActorHandler(object):
    """What is registered with clikit: maps the interpreter's 'fell off the script' to None."""

    def __init__(self, actor):
        self.actor = actor

    def handle(self, args, io, command):
        r = self.actor.handle(args, io, command)
        return None if r is _NOTHING else r


def build_app(spec, scripts, log, listeners=(), raiser=None, config_hook=None, handler_kinds=None):
    """Real ConsoleApplication from a spec.  ``scripts``: hid -> step list (default: return None)."""
    from clikit import ConsoleApplication
    from clikit.args import DefaultArgsParser
    from clikit.config import DefaultApplicationConfig

    config = DefaultApplicationConfig(spec["name"], spec["version"])
    config.set_terminate_after_run(False)
    shared = DefaultArgsParser() if spec.get("shared_parser") else None

    def add(parent, cmd):
        cc = parent.create_command(cmd["name"]) if hasattr(parent, "create_command") else parent.create_sub_command(cmd["name"])
        cc.set_description("The %s command" % cmd["name"])
        for a in cmd["aliases"]:
            cc.add_alias(a)
        for ln, sh, flags, default in cmd["opts"]:
            cc.add_option(ln, sh, flags, "option " + ln, default)
        for name, flags, default in cmd["args"]:
            cc.add_argument(name, flags, "argument " + name, default)
        if cmd["anonymous"]:
            cc.anonymous()
        elif cmd["default"]:
            cc.default()
        if cmd["lenient"] is True:
            cc.enable_lenient_args_parsing()
        elif cmd["lenient"] is False:
            cc.disable_lenient_args_parsing()
        if shared is not None:
            cc.set_args_parser(shared)
        ah = ActorHandler(Actor(cmd["hid"], scripts.get(str(cmd["hid"]), scripts.get(cmd["hid"], [])), log, raiser))
        hk = (handler_kinds or {}).get(cmd["hid"], "object")
        if hk == "callback":
            from clikit.handler.callback_handler import CallbackHandler
            cc.set_handler(CallbackHandler(lambda args, io, _ah=ah: _ah.handle(args, io, None)))
        elif hk == "callback_var":
            from clikit.handler.callback_handler import CallbackHandler

            def cb(*params, **kw):
                return cb.ah.handle(params[0], params[1], params[2] if len(params) > 2 else None)
            cb.ah = ah
            cc.set_handler(CallbackHandler(cb))
        elif hk == "factory":
            # a zero-argument callable: clikit asks it for a handler whenever it needs one, so every
            # run gets a handler object of its own (and so does a freshly built application)
            cc.set_handler(lambda _c=cmd: ActorHandler(Actor(_c["hid"], scripts.get(str(_c["hid"]), scripts.get(_c["hid"], [])), log, raiser)))
        elif hk == "factory_raises":
            def broken():
                raise RuntimeError("the handler of this command cannot be built")
            cc.set_handler(broken)
        else:
            cc.set_handler(ah)
        for s in cmd["subs"]:
            add(cc, s)

    for c in spec["commands"]:
        add(config, c)
    if spec.get("help_alias"):
        # the application gives the built-in help command a second name
        config.get_command_config("help").add_alias(spec["help_alias"])
    for event_name, fn, prio in listeners:
        config.add_event_listener(event_name, fn, prio)
    if config_hook is not None:
        config_hook(config)
    return ConsoleApplication(config)
