"""Virtual clock and a shim that stands in for the ``time`` module inside clikit modules.

Integer microseconds internally.  Single-threaded harnesses (C16, manual C19) use it directly:
``sleep`` simply advances the clock.  Under the thread scheduler (sched.py) ``sleep`` is routed to
the scheduler, which blocks the calling simulated thread until the wake-up time and jumps the clock
when nothing is runnable.
"""

EPOCH = 1700000000.0  # arbitrary fixed wall-clock origin


class VirtualClock(object):
    def __init__(self, epoch=EPOCH):
        self.epoch = epoch
        self.us = 0
        self.reads = 0
        self.sleeper = None  # set by the scheduler

    # -- simulator side ---------------------------------------------------------------------
    def advance_us(self, us):
        self.us += int(us)

    def advance(self, seconds):
        self.us += int(round(seconds * 1e6))

    def now(self):
        return self.epoch + self.us / 1e6

    # -- shim side (what clikit sees) -------------------------------------------------------
    def time(self):
        self.reads += 1
        return self.epoch + self.us / 1e6

    def monotonic(self):
        self.reads += 1
        return self.us / 1e6

    def sleep(self, seconds):
        if self.sleeper is not None:
            self.sleeper(seconds)
        else:
            if seconds > 0:
                self.us += int(round(seconds * 1e6))


class TimeShim(object):
    """Object with the attributes of the ``time`` module clikit uses."""

    def __init__(self, clock):
        self._clock = clock
        self.time = clock.time
        self.sleep = clock.sleep
        self.monotonic = clock.monotonic
        self.perf_counter = clock.monotonic

    def __getattr__(self, name):  # anything else is a harness error, not silently real time
        raise AttributeError("TimeShim: clikit asked for time.%s, which is not simulated" % name)
