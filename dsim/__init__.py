"""dsim - deterministic simulation with fault injection for sdispater/clikit.

One integer (VERIF_SEED) decides every scenario, schedule and fault.  See /verif/DESIGN.md.
"""
HARNESS_VERSION = 1
