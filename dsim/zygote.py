"""Pristine reference process.

A *zygote* is forked from a process that has imported the code under test but has not executed a
single scenario.  For every reference request it forks a grandchild that performs ONE operation
(build the object from the scenario's spec, run/render once), pipes back the pickled observation
and ``_exit``s.  Process-global state of the requesting worker (class-level caches, style
singletons, module dicts, linecache) cannot leak into the reference, and nothing a reference does
can leak into the next one.

The zygote is owned by the process that created it (pid check): forked pool workers create their
own on first use, while they are still fresh.

A second kind of reference process, the *peer*, is not forked but started as a NEW interpreter with
another PYTHONHASHSEED (and then serves requests the same way, one grandchild per request): what
it answers cannot depend on the hash seed or on anything the requesting process has done.
"""
import os
import pickle
import struct
import sys
import traceback

_state = {"pid": None, "to": None, "frm": None, "zpid": None, "requests": 0}


def _read_exact(fd, n):
    buf = b""
    while len(buf) < n:
        chunk = os.read(fd, n - len(buf))
        if not chunk:
            raise EOFError()
        buf += chunk
    return buf


def _send(fd, obj):
    data = pickle.dumps(obj, protocol=4)
    os.write(fd, struct.pack(">I", len(data)))
    off = 0
    while off < len(data):
        off += os.write(fd, data[off:off + 65536])


def _recv(fd):
    n = struct.unpack(">I", _read_exact(fd, 4))[0]
    return pickle.loads(_read_exact(fd, n))


def _zygote_loop(req_fd, res_fd):
    while True:
        try:
            func_path, args = _recv(req_fd)
        except EOFError:
            os._exit(0)
        r, w = os.pipe()
        pid = os.fork()
        if pid == 0:
            # grandchild: one operation, then gone
            os.close(r)
            try:
                mod_name, fn_name = func_path
                mod = sys.modules.get(mod_name) or __import__(mod_name, fromlist=["x"])
                out = ("ok", getattr(mod, fn_name)(*args))
            except BaseException as e:
                out = ("error", "%s: %s\n%s" % (type(e).__name__, e, traceback.format_exc()))
            try:
                _send(w, out)
            finally:
                os._exit(0)
        os.close(w)
        try:
            res = _recv(r)
        except EOFError:
            res = ("error", "reference child died without an answer")
        os.close(r)
        os.waitpid(pid, 0)
        _send(res_fd, res)


def ensure():
    """Creates the zygote for this process if it does not own one.  Call while still pristine."""
    if _state["pid"] == os.getpid():
        return
    # fds inherited from a parent's zygote are not ours to use
    to_r, to_w = os.pipe()
    from_r, from_w = os.pipe()
    sys.stdout.flush()
    sys.stderr.flush()
    zpid = os.fork()
    if zpid == 0:
        os.close(to_w)
        os.close(from_r)
        try:
            _zygote_loop(to_r, from_w)
        finally:
            os._exit(0)
    os.close(to_r)
    os.close(from_w)
    _state.update({"pid": os.getpid(), "to": to_w, "frm": from_r, "zpid": zpid, "requests": 0})


def reference(module_name, function_name, *args):
    """Runs ``module.function(*args)`` in a child of the pristine zygote and returns its result."""
    if _state["pid"] != os.getpid():
        raise RuntimeError("zygote.ensure() was not called in this process while it was pristine")
    _send(_state["to"], ((module_name, function_name), args))
    status, value = _recv(_state["frm"])
    _state["requests"] += 1
    if status != "ok":
        raise RuntimeError("reference process failed: %s" % value)
    return value


# ---- peer: a reference interpreter of its own, started under another hash seed ------------------
_peer = {"pid": None, "proc": None}
PEER_HASHSEED = "90210"


def _serve_stdio(preload=""):
    """Main of the peer interpreter: requests on fd 0, answers on a private copy of fd 1."""
    out_fd = os.dup(1)
    os.dup2(2, 1)  # whatever the code under test prints must not end up in the answer stream
    for name in filter(None, preload.split(",")):
        __import__(name)  # imported once here, inherited by every per-request child
    _zygote_loop(0, out_fd)


def ensure_peer(preload=()):
    import subprocess
    if _peer["pid"] == os.getpid() and _peer["proc"] is not None and _peer["proc"].poll() is None:
        return
    here = os.path.dirname(os.path.dirname(os.path.abspath(__file__)))
    src = os.environ.get("CLIKIT_SRC", "/repo/src")
    env = dict(os.environ, PYTHONHASHSEED=PEER_HASHSEED, PYTHONPATH=os.pathsep.join([here, src]),
               PYTHONDONTWRITEBYTECODE="1")
    env.pop("COLUMNS", None)
    env.pop("LINES", None)
    proc = subprocess.Popen([sys.executable, "-B", "-c", "import dsim.zygote as z; z._serve_stdio(%r)" % ",".join(preload)],
                            stdin=subprocess.PIPE, stdout=subprocess.PIPE, env=env, close_fds=True)
    _peer.update({"pid": os.getpid(), "proc": proc})


def peer_reference(module_name, function_name, *args):
    """Runs ``module.function(*args)`` in a child of the peer interpreter (fresh process state, other
    hash seed) and returns its result."""
    ensure_peer((module_name,))
    proc = _peer["proc"]
    _send(proc.stdin.fileno(), ((module_name, function_name), args))
    status, value = _recv(proc.stdout.fileno())
    if status != "ok":
        raise RuntimeError("peer reference failed: %s" % value)
    return value
