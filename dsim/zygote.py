"""Pristine reference process.

A *zygote* is forked from a process that has imported the code under test but has not executed a
single scenario.  For every reference request it forks a grandchild that performs ONE operation
(build the object from the scenario's spec, run/render once), pipes back the pickled observation
and ``_exit``s.  Process-global state of the requesting worker (class-level caches, style
singletons, module dicts, linecache) cannot leak into the reference, and nothing a reference does
can leak into the next one.

The zygote is owned by the process that created it (pid check): forked pool workers create their
own on first use, while they are still fresh.
"""
import os
import pickle
import struct
import sys
import traceback

_state = {"pid": None, "to": None, "frm": None, "zpid": None, "requests": 0}


def _read_exact(fd, n):
    buf = b""
    while len(buf) < n:
        chunk = os.read(fd, n - len(buf))
        if not chunk:
            raise EOFError()
        buf += chunk
    return buf


def _send(fd, obj):
    data = pickle.dumps(obj, protocol=4)
    os.write(fd, struct.pack(">I", len(data)))
    off = 0
    while off < len(data):
        off += os.write(fd, data[off:off + 65536])


def _recv(fd):
    n = struct.unpack(">I", _read_exact(fd, 4))[0]
    return pickle.loads(_read_exact(fd, n))


def _zygote_loop(req_fd, res_fd):
    while True:
        try:
            func_path, args = _recv(req_fd)
        except EOFError:
            os._exit(0)
        r, w = os.pipe()
        pid = os.fork()
        if pid == 0:
            # grandchild: one operation, then gone
            os.close(r)
            try:
                mod_name, fn_name = func_path
                mod = sys.modules.get(mod_name) or __import__(mod_name, fromlist=["x"])
                out = ("ok", getattr(mod, fn_name)(*args))
            except BaseException as e:
                out = ("error", "%s: %s\n%s" % (type(e).__name__, e, traceback.format_exc()))
            try:
                _send(w, out)
            finally:
                os._exit(0)
        os.close(w)
        try:
            res = _recv(r)
        except EOFError:
            res = ("error", "reference child died without an answer")
        os.close(r)
        os.waitpid(pid, 0)
        _send(res_fd, res)


def ensure():
    """Creates the zygote for this process if it does not own one.  Call while still pristine."""
    if _state["pid"] == os.getpid():
        return
    # fds inherited from a parent's zygote are not ours to use
    to_r, to_w = os.pipe()
    from_r, from_w = os.pipe()
    sys.stdout.flush()
    sys.stderr.flush()
    zpid = os.fork()
    if zpid == 0:
        os.close(to_w)
        os.close(from_r)
        try:
            _zygote_loop(to_r, from_w)
        finally:
            os._exit(0)
    os.close(to_r)
    os.close(from_w)
    _state.update({"pid": os.getpid(), "to": to_w, "frm": from_r, "zpid": zpid, "requests": 0})


def reference(module_name, function_name, *args):
    """Runs ``module.function(*args)`` in a child of the pristine zygote and returns its result."""
    if _state["pid"] != os.getpid():
        raise RuntimeError("zygote.ensure() was not called in this process while it was pristine")
    _send(_state["to"], ((module_name, function_name), args))
    status, value = _recv(_state["frm"])
    _state["requests"] += 1
    if status != "ok":
        raise RuntimeError("reference process failed: %s" % value)
    return value
