"""C04 - a run always ends in a valid exit status and never leaks a handler failure.

System: real ConsoleApplication.run / DefaultApplicationConfig / resolver / parser / Command /
EventDispatcher / ExceptionTrace / formatters / IO.  Simulated: handler actors and pre-handle
listener actors (scripted), the three streams, the source store that holds the code the handler
"was written in".  Faults: the handler raises at every step of its script (crash-point sweep), from
every origin (harness file, simulated file, simulated file that then becomes unreadable, exec'd
string); listeners fail; odd return values.
"""
from .. import apptree, srcgen
from ..harness import Result
from ..simfs import PREFIX, Store, clear_known_caches, scenario_prefix
from ..streams import EventLog, SimInputStream, SimOutputStream
from ..term import strip_ansi

PROP = "C04"
LEVEL = "fault_enumeration"
RUNS = {"quick": 12000, "thorough": 250000}
OPS_KEYS = ("script",)
INFO = {
    "rule": "seeded runs of a generated application (1-4 commands, sub-commands, typed options/arguments) on "
            "one canonical command line with a scripted handler (<= 6 steps: writes, indentation scope, nested "
            "calls) ending in a return value or a raise (library / builtin / foreign exception types, "
            "adversarial messages, cause chains, KeyboardInterrupt) from a seeded code origin, with 0-2 "
            "pre-handle listeners that pass, handle or fail; for every generated script the raise is also "
            "injected at every earlier step (crash-point sweep).  non-trivial = the handler or a listener "
            "failed, or the return value needed clamping; distinct = distinct event-log digests",
    "states_measure": "(outcome kind, origin, verbosity, quiet, listener behaviours, status) tuples",
    "components_real": ["clikit.ConsoleApplication.run", "clikit.config.DefaultApplicationConfig", "clikit.resolver.*",
                        "clikit.args.DefaultArgsParser", "clikit.api.command.Command", "clikit.api.event.EventDispatcher",
                        "clikit.ui.components.ExceptionTrace", "clikit.formatter.*", "clikit.io.ConsoleIO", "crashtest"],
    "components_stubbed": ["command handlers (scripted actors)", "pre-handle listeners (scripted actors)",
                           "InputStream / OutputStream x2 (simulated)", "source store for handler code (dsim.simfs)"],
    "assumptions": [
        "'every exception' is Python's Exception hierarchy plus KeyboardInterrupt; SystemExit/GeneratorExit are requests to the interpreter",
        "for KeyboardInterrupt only 'returns a non-zero status without raising' is asserted (it is mapped to status 1 without a report by design)",
        "return values are integer-like (None, bools, ints, floats, numeric strings)",
        "command lines are canonical (one spelling per option) so that parser/resolver questions (C01-C03, not claimed) cannot surface here",
    ],
}
EXPECTED_PROBES = ("trace_at_normal", "trace_at_verbose", "trace_at_debug", "clamped_low", "clamped_high",
                   "listener_handled", "listener_handled_without_status", "listener_failed", "keyboard_interrupt", "keyboard_interrupt_debug",
                   "raise_inside_indent", "raise_deep", "origin_simfile", "origin_simfile_fault", "origin_exec",
                   "library_exception", "quiet_exception", "markup_message", "real_recursion_error", "prior_failing_run", "callback_handler")

RETURNS = [None, False, 0, 0.0, "", True, 1, -1, -300, 255, 256, 1000000, "3", "0", "007", 0.5, 3.7, 254.9, 2, 17]


def setup():
    import crashtest.frame  # noqa


def _script(w, outcome):
    steps = []
    for _ in range(w.randint(0, 5)):
        k = w.weighted([("out", 4), ("err", 2), ("indent", 1), ("deep", 1)])
        if k in ("out", "err"):
            steps.append([k, w.pick(["line <info>one</info>", "plain", "<comment>c</comment>", "été"]), w.pick([None, None, 1, 2, 4])])
        elif k == "indent":
            steps.append(["indent", w.pick([2, 4]), [["out", "inside", None]]])
        else:
            steps.append(["deep", w.pick([1, 3, 10, 40, 60]), [["err", "deep", None]]])
    steps.append(outcome)
    return steps


def gen(S, tier):
    c = S("config")
    w = S("workload")
    f = S("faults")
    spec = apptree.gen_app(c)
    lv = apptree.leaves(spec)
    path, cmd, chain = c.pick(lv)
    target = apptree.resolved_target(cmd)
    tchain = list(chain)
    t = cmd
    while t is not target:
        nxt = [s for s in t["subs"] if s["default"]][0]
        tchain.append(nxt)
        t = nxt
    tail, exp_args, exp_opts = apptree.gen_line(w, tchain)
    if f.chance(0.55):
        if f.chance(0.12):
            outcome = ["raise", "KeyboardInterrupt"]
        elif f.chance(0.03):
            outcome = ["raise", "RecursionError-real"]
        elif f.chance(0.06):
            outcome = ["raise", {"type": "FromWrite", "msg": f.pick(["<error>b</info>", "mis <info>nested</comment> tags", "x <b><info>y</b> z</info>"]),
                                 "stream": f.pick(["out", "err"]), "cause": None, "context": None}]
        else:
            outcome = ["raise", srcgen.gen_exc_spec(f)]
    else:
        outcome = ["return", f.pick(RETURNS)]
    listeners = []
    for _ in range(f.weighted([(0, 6), (1, 3), (2, 1)])):
        listeners.append([f.pick([-10, 0, 5]), f.weighted([("pass", 4), ("handle", 3), ("fail", 2)]), f.pick([0, 3, 300, -2, "9"])])
        if listeners[-1][1] == "handle" and S("extension").chance(0.25):
            listeners[-1][2] = "unset"
    cwd_gone = S("extension").chance(0.1)  # fault: the directory the program was started in is gone
    prior = [srcgen.gen_exc_spec(f) for _ in range(f.weighted([(0, 6), (1, 3), (2, 1)]))]
    if prior and outcome[0] == "raise" and isinstance(outcome[1], dict) and f.chance(0.35):
        first, second = srcgen.interacting_pair(f)
        prior[-1] = dict(prior[-1], msg=first, type=f.pick(["ValueError", "CliKitLike", "RuntimeError"]))
        outcome[1] = dict(outcome[1], msg=second)
    script = _script(w, outcome)
    if outcome[0] == "raise" and isinstance(outcome[1], dict) and f.chance(0.15):
        # the handler's own output leaves a style tag open (legal: the style simply stays on) and the
        # failure that follows carries a closing tag - of that style or of another one
        t = f.pick(["info", "comment", "b", "question", "fg=red"])
        t2 = f.pick(["info", "comment", "error", "b", "question", ""])
        script.insert(f.randint(0, len(script) - 1), [f.pick(["out", "err"]), "<%s>left open by the handler" % t, None])
        script[-1] = ["raise", dict(outcome[1], msg=f.pick(["x </%s> y", "closing </%s> only", "<b>bold</%s>"]) % t2)]
    closed_err = False
    if outcome[0] == "return" and f.chance(0.12):
        if f.chance(0.5):
            # the handler closes its I/O when it is done and returns normally
            script.insert(len(script) - 1, ["close_io"])
        elif not listeners and all(st[0] == "out" for st in script[:-1]):
            # the error stream is closed before the run starts (`app 2>&-`); nothing is ever written to it
            closed_err = True
    return {
        "closed_err": closed_err,
        "app": spec, "path": path, "tail": tail, "exp_args": exp_args, "exp_opts": exp_opts,
        "target_hid": target["hid"], "verbosity": c.pick(["", "", "-v", "-vv", "-vvv"]), "quiet": c.chance(0.1),
        "ansi": c.chance(0.5), "script": script, "listeners": listeners,
        "stream_encoding": c.weighted([(None, 7), ("utf-8", 1), ("ascii", 1), ("latin-1", 1), ("cp1252", 0.5), ("no-such-codec", 0.3)]),
        "origin": f.weighted([("harness", 5), ("simfile", 2), ("simfile_fault", 2), ("exec", 2)]),
        # how the handler is attached: an object with handle(), or a callable wrapped in CallbackHandler
        "handler_kind": c.pick(["object", "object", "callback", "callback_var", "factory"]),
        # failing runs of the same process *before* the run under test (another application object,
        # another message): what their error reports leave behind must not matter
        "prior": prior, "cwd_gone": cwd_gone,
    }


def sweep(sc, tier):
    """Crash-point sweep: the raise replaces every earlier step (and the step inside a scope)."""
    out = []
    steps = sc["script"]
    if not steps or steps[-1][0] != "raise":
        return out
    boom = steps[-1]
    pts = list(range(len(steps) - 1))
    if tier == "quick":
        pts = pts[:2]
    for k in pts:
        st = steps[k]
        if st[0] == "indent":
            new = steps[:k] + [["indent", st[1], st[2] + [boom]]]
        elif st[0] == "deep":
            new = steps[:k] + [["deep", st[1], st[2] + [boom]]]
        else:
            new = steps[:k] + [boom]
        out.append(dict(sc, script=new))
    return out


def simplify(sc):
    if sc.get("prior"):
        yield dict(sc, prior=sc["prior"][:-1])
    if sc.get("handler_kind", "object") != "object":
        yield dict(sc, handler_kind="object")
    if sc["listeners"]:
        yield dict(sc, listeners=sc["listeners"][:-1])
        yield dict(sc, listeners=[])
    for k, v in (("verbosity", ""), ("quiet", False), ("ansi", False), ("origin", "harness"), ("stream_encoding", None)):
        if sc.get(k) != v:
            yield dict(sc, **{k: v})
    steps = sc["script"]
    if steps and steps[-1][0] == "raise" and isinstance(steps[-1][1], dict):
        e = steps[-1][1]
        if e.get("cause") or e.get("context"):
            yield dict(sc, script=steps[:-1] + [["raise", dict(e, cause=None, context=None)]])
        if e["type"] != "ValueError":
            yield dict(sc, script=steps[:-1] + [["raise", dict(e, type="ValueError")]])
        if e["msg"] != "boom":
            yield dict(sc, script=steps[:-1] + [["raise", dict(e, msg="boom")]])
    # smaller application: keep only the command on the path
    spec = sc["app"]
    if len(spec["commands"]) > 1:
        keep = [c for c in spec["commands"] if c["name"] == sc["path"][0]]
        if keep:
            yield dict(sc, app=dict(spec, commands=keep))


def condition(sc, v):
    return {"origin": sc["origin"]}


def model_status(v):
    if not v:
        return 0
    return min(max(int(v), 1), 255)


def execute(sc):
    from clikit.args import ArgvArgs
    from clikit.api.event import PRE_HANDLE
    from clikit.ui.components.exception_trace import ExceptionTrace
    from crashtest.frame import Frame
    import crashtest.frame as frame_mod

    res = Result()
    log = EventLog()
    inv = []
    store = Store()
    clear_known_caches()
    old_open = getattr(frame_mod, "open", None)
    frame_mod.open = store.open

    steps = sc["script"]
    outcome = steps[-1] if steps else ["return", None]
    # the outcome may sit inside a nested step after the sweep
    def last_outcome(ss):
        for st in reversed(ss):
            if st[0] in ("return", "raise"):
                return st
            if st[0] in ("indent", "deep"):
                r = last_outcome(st[2])
                if r:
                    return r
            break
        return None
    outcome = last_outcome(steps) or ["return", None]
    in_indent = any(st[0] == "indent" and last_outcome(st[2]) for st in steps)
    in_deep = any(st[0] == "deep" and last_outcome(st[2]) for st in steps)

    raiser = None
    origin = sc["origin"]
    try:
        if origin in ("simfile", "simfile_fault"):
            src = ("# handler support code\n"
                   "def helper(exc):\n"
                   "    value = compute(exc)\n"
                   "    return value\n"
                   "\n"
                   "def compute(exc):\n"
                   "    # the failure happens here\n"
                   "    raise exc\n")
            path = scenario_prefix(sc) + "handlers/support.py"
            g = store.run_module(path, src)
            raiser = g["helper"]
            res.probe("origin_simfile")
            if origin == "simfile_fault":
                store.inject(path, "enoent", g)
                res.probe("origin_simfile_fault")
        elif origin == "exec":
            g = {"__name__": "execd_handler"}
            exec(compile("def helper(exc):\n    raise exc\n", "<string>", "exec"), g)
            raiser = g["helper"]
            res.probe("origin_exec")

        listeners = []
        lstate = {"ran": []}

        def mk_listener(i, prio, behaviour, code):
            def listener(event, event_name, dispatcher):
                lstate["ran"].append(i)
                if behaviour == "handle":
                    event.handled(True)
                    if code != "unset":  # a listener may take the command over without naming a status
                        event.set_status_code(code)
                elif behaviour == "fail":
                    raise ValueError("listener %d failed" % i)
            return listener

        for i, (prio, behaviour, code) in enumerate(sc["listeners"]):
            listeners.append((PRE_HANDLE, mk_listener(i, prio, behaviour, code), prio))

        scripts = {sc["target_hid"]: steps}
        for j, pspec in enumerate(sc.get("prior", [])):
            pinv = []
            papp = apptree.build_app(sc["app"], {sc["target_hid"]: [["raise", pspec]]}, pinv)
            plog = EventLog()
            try:
                pst = papp.run(ArgvArgs(["prog"] + list(sc["path"]) + list(sc["tail"])), SimInputStream(plog, []),
                               SimOutputStream("pout", plog, ansi=sc["ansi"]), SimOutputStream("perr", plog, ansi=sc["ansi"]))
                if type(pst) is not int or pst == 0:
                    res.violate("status", "prior_run", "a failing earlier run returned %r" % (pst,))
            except BaseException as e:
                res.violate("escapes", "prior_run:%s" % type(e).__name__, "an earlier run raised %s: %s" % (type(e).__name__, str(e)[:100]))
            res.probe("prior_failing_run")
        app = apptree.build_app(sc["app"], scripts, inv, listeners, raiser, handler_kinds={sc["target_hid"]: sc.get("handler_kind", "object")})
        if sc.get("handler_kind", "object") != "object":
            res.probe("callback_handler")
        tokens = list(sc["path"]) + list(sc["tail"])
        if sc["verbosity"]:
            tokens.append(sc["verbosity"])
        if sc["quiet"]:
            tokens.append("-q")
        out = SimOutputStream("out", log, ansi=sc["ansi"])
        err = SimOutputStream("err", log, ansi=sc["ansi"])
        if sc.get("stream_encoding"):
            # clikit's own StreamOutputStream over a text file of that encoding (errors="replace":
            # what cannot be encoded does not fail the write); supports_utf8() is the stream's own answer
            from ..realstream import RealStreamOutput, SimFile
            out = RealStreamOutput(SimFile("out", log, encoding=sc["stream_encoding"], strict=False), sc["ansi"])
            err = RealStreamOutput(SimFile("err", log, encoding=sc["stream_encoding"], strict=False), sc["ansi"])
            res.probe("real_stream_" + sc["stream_encoding"])
        if sc.get("closed_err"):
            err.close()
            res.fault("error_stream_closed_before_the_run")
        if any(st[0] == "close_io" for st in sc["script"]):
            res.fault("handler_closes_its_io")
        inp = SimInputStream(log, [])
        raised = None
        status = None
        import sys
        old_limit = sys.getrecursionlimit()
        if outcome == ["raise", "RecursionError-real"]:
            # real recursion, but a short way down - and relative to where we are, so that the number
            # of frames in the traceback does not depend on how deep the harness itself was called
            fr, depth = sys._getframe(), 0
            while fr is not None:
                depth += 1
                fr = fr.f_back
            sys.setrecursionlimit(depth + 260)
            res.probe("real_recursion_error")
        import clikit.ui.components.exception_trace as et_mod
        from ..simenv import cwd_removed
        try:
            with cwd_removed(et_mod, bool(sc.get("cwd_gone"))) as cwd_hits:
                status = app.run(ArgvArgs(["prog"] + tokens), inp, out, err)
        except BaseException as e:  # nothing may escape, not even KeyboardInterrupt
            raised = e
        finally:
            sys.setrecursionlimit(old_limit)
        if cwd_hits[0]:
            res.fault("working_directory_removed", cwd_hits[0])
            res.probe("report_without_working_directory")
        log.add("status", repr(status), type(raised).__name__ if raised else None)
    finally:
        if old_open is None:
            del frame_mod.open
        else:
            frame_mod.open = old_open
        store.cleanup()
        clear_known_caches()
    res.events = log.events
    for k, v in store.fault_hits.items():
        res.fault("source_" + k, v)

    # ---- model ---------------------------------------------------------------------------------
    order = sorted(range(len(sc["listeners"])), key=lambda i: (-sc["listeners"][i][0], i))
    handled, l_failed, code = False, False, 0
    for i in order:
        b = sc["listeners"][i][1]
        if b == "fail":
            l_failed = True
            res.fault("listener_raises")
            res.probe("listener_failed")
            break
        if b == "handle":
            handled = True
            res.probe("listener_handled")
            if sc["listeners"][i][2] == "unset":
                # the status code stays what it was (0, or what a listener before this one named)
                res.probe("listener_handled_without_status")
            else:
                code = sc["listeners"][i][2]
    kind = outcome[0]
    is_ki = kind == "raise" and outcome[1] == "KeyboardInterrupt"
    handler_runs = not handled and not l_failed
    if handler_runs and kind == "raise":
        res.fault("handler_raises")
        if in_indent:
            res.probe("raise_inside_indent")
        if in_deep:
            res.probe("raise_deep")
    verbosity = {"": 0, "-v": 1, "-vv": 2, "-vvv": 4}[sc["verbosity"]]

    # (1) returns an int in 0..255, nothing escapes
    where = "listener" if l_failed else ("handled" if handled else kind)
    if raised is not None:
        res.violate("escapes", "%s:%s" % (where, type(raised).__name__),
                    "run raised %s: %s (origin %s, verbosity %s, quiet %r)" % (type(raised).__name__, str(raised)[:120], origin, sc["verbosity"] or "normal", sc["quiet"]))
        return res
    if type(status) is not int or not (0 <= status <= 255):
        res.violate("status_range", where, "run returned %r" % (status,))
        return res

    # (2) status model
    if l_failed:
        if status == 0:
            res.violate("status", "listener_failed", "a failing listener gave status 0")
    elif handled:
        try:
            want = model_status(code)
        except ValueError:
            want = None
        if want is not None and status != want:
            res.violate("status", "listener_handled", "listener status code %r gave %r, expected %r" % (code, status, want))
    elif kind == "return":
        v = outcome[1]
        want = model_status(v)
        if status != want:
            res.violate("status", "return", "handler returned %r, status %r, expected %r" % (v, status, want))
        if v and int(v) < 1:
            res.probe("clamped_low")
        if v and int(v) > 255:
            res.probe("clamped_high")
    else:
        if status == 0:
            res.violate("status", "exception", "handler raised %r, status 0" % (outcome[1],))
        if is_ki:
            res.probe("keyboard_interrupt")
            if verbosity == 4:
                res.probe("keyboard_interrupt_debug")

    # (3) invocation log
    hids = [r["hid"] for r in inv]
    if handler_runs:
        if hids != [sc["target_hid"]]:
            res.violate("invocation", "which", "handlers run: %r, expected exactly [%r] (line %r)" % (hids, sc["target_hid"], tokens))
        else:
            r = inv[0]
            if r["arguments"] != sc["exp_args"]:
                res.violate("invocation", "arguments", "handler saw arguments %r, line was built from %r (%r)" % (r["arguments"], sc["exp_args"], tokens))
            got_opts = {k: v for k, v in r["options"].items() if k not in ("verbose", "quiet")}
            if got_opts != sc["exp_opts"]:
                res.violate("invocation", "options", "handler saw options %r, line was built from %r (%r)" % (got_opts, sc["exp_opts"], tokens))
    elif hids:
        res.violate("invocation", "after_listener", "handler(s) %r ran although a listener %s" % (hids, "failed" if l_failed else "handled the event"))

    # (4) error report
    text = strip_ansi(out.data() + err.data())
    failed = l_failed or (handler_runs and kind == "raise" and not is_ki)
    if failed:
        if sc["quiet"]:
            res.probe("quiet_exception")
        else:
            if not (out.data() + err.data()):
                res.violate("report", "missing", "a failure produced no output at all (status %r)" % status)
            elif not l_failed and outcome[1] == "RecursionError-real":
                if "RecursionError" not in text and "maximum recursion depth" not in text:
                    res.violate("report", "message", "report of a real RecursionError does not name it: %r" % text[:300])
            elif not l_failed:
                exc = srcgen.make_exception(outcome[1])
                msg = str(exc)
                first = msg.split("\n")[0].strip()
                if "<" in msg:
                    res.probe("markup_message")
                elif first and " ".join(first.split()) not in " ".join(text.split()):
                    res.violate("report", "message", "report does not contain the message %r: %r" % (first[:60], text[:300]))
                from clikit.api.exceptions import CliKitException
                if isinstance(exc, CliKitException):
                    res.probe("library_exception")
                else:
                    res.probe({0: "trace_at_normal", 1: "trace_at_verbose", 2: "trace_at_verbose", 4: "trace_at_debug"}[verbosity])
    res.steps = len(steps)
    res.states.add((where, origin, verbosity, sc["quiet"], tuple(l[1] for l in sc["listeners"]), status))
    res.nontrivial = failed or is_ki or (kind == "return" and outcome[1] not in (None, 0, 1, False, True))
    return res
