"""C09 - global switches act the same wherever they appear and whatever command runs.

System: real application with DefaultApplicationConfig + generated commands, create_io, help and
version listeners, ConfirmationQuestion.  Simulated: the handler actor (writes one styled line per
verbosity level to each stream, asks one confirmation, optionally raises), three streams whose
tty-ness is seeded independently, the user's input.  Faults: the handler raises while -q is given
(the error report must be suppressed too); the input holds no line at all while -n is given.
"""
import os
import re

from .. import apptree
from ..harness import Result
from ..streams import EventLog, SimInputStream, SimOutputStream
from ..term import strip_ansi

PROP = "C09"
LEVEL = "exploration"
RUNS = {"quick": 40000, "thorough": 1500000}
OPS_KEYS = ("switches", "dd_tail")
INFO = {
    "rule": "seeded runs: generated application, a valid canonical line for a generated command ending in a "
            "multi-valued argument, a seeded subset of the seven switches in seeded spelling inserted at seeded "
            "positions among the tokens before '--' (help/version after the command path), optionally a '--' "
            "tail repeating switch spellings as plain arguments; handler writes a styled line per verbosity "
            "level to both streams, asks a confirmation, optionally raises; stream tty-ness seeded per stream. "
            "non-trivial = >= 2 switches, or a switch with a handler fault, or a '--' tail; distinct = digests",
    "states_measure": "(sorted switch kinds, early placement?, tty out, tty err, handler raises, tail?) tuples",
    "components_real": ["clikit.config.DefaultApplicationConfig (create_io, resolve_help_command, print_version)",
                        "clikit.ConsoleApplication.run", "clikit.args.ArgvArgs", "clikit.handler.help.HelpTextHandler",
                        "clikit.resolver.HelpResolver", "clikit.ui.help.CommandHelp", "clikit.ui.components.NameVersion/ConfirmationQuestion"],
    "components_stubbed": ["command handler (scripted actor)", "InputStream (scripted user)", "OutputStream x2 (tty-ness seeded)", "COLUMNS/LINES"],
    "assumptions": [
        "placement space is sampled, not enumerated",
        "precedence of contradictory switches (--ansi with --no-ansi, help with version) is not asserted",
        "a switch placed before the end of the command path changes which command is resolved (documented "
        "resolver behaviour): for such placements only the placement-independent clauses are asserted",
        "'-v' is only inserted where the next token starts with '-' (it takes an optional value)",
        "the help clause is asserted for commands without default sub-commands",
    ],
}
EXPECTED_PROBES = ("quiet_with_raise", "no_interaction_empty_input", "help_after_path", "version_after_path",
                   "ansi_forced_on_plain_stream", "no_ansi_on_tty", "switch_after_dashdash", "early_placement",
                   "verbosity_v", "verbosity_vv", "verbosity_vvv", "question_read", "separator_is_first_token")

SWITCHES = {
    "help": ["-h", "--help"], "quiet": ["-q", "--quiet"], "v": ["-v"], "vv": ["-vv"], "vvv": ["-vvv"],
    "version": ["-V", "--version"], "ansi": ["--ansi"], "no_ansi": ["--no-ansi"], "no_interaction": ["-n", "--no-interaction"],
}
LEVEL_OF = {"v": 1, "vv": 2, "vvv": 4}
TAGGED = [(None, "N"), (1, "V"), (2, "VV"), (4, "D")]


def gen(S, tier):
    c = S("config")
    w = S("workload")
    f = S("faults")
    spec = apptree.gen_app(c)
    cands = [(p, cmd, ch) for p, cmd, ch in apptree.leaves(spec) if not any(s["default"] for s in cmd["subs"]) and not cmd["subs"]]
    if not cands:
        cands = [(p, cmd, ch) for p, cmd, ch in apptree.leaves(spec) if not any(s["default"] for s in cmd["subs"])]
    plain_target = bool(cands)
    if not cands:
        # every addressable command has a default sub-command: the line is built for the one that handles it
        p0, c0, ch0 = c.pick(apptree.leaves(spec))
        t0 = apptree.resolved_target(c0)
        cands = [(p0, t0, ch0 + ([t0] if t0 is not c0 else []))]
    path, cmd, chain = c.pick(cands)
    # a '--' tail needs somewhere to go: the trailing multi-valued argument
    use_tail = w.chance(0.3) and any(a[0] == "rest" for a in cmd["args"])
    tail, exp_args, exp_opts = apptree.gen_line(w, chain, fill_all=use_tail)
    lenient_surplus = False
    if plain_target and not use_tail and not cmd["subs"] and c.chance(0.15):
        # a command that parses leniently and has no catch-all argument, called with more arguments
        # than it declares: the extra tokens are skipped - and whatever follows them is still read
        cmd["lenient"] = True
        cmd["args"] = [a for a in cmd["args"] if a[0] != "rest"]
        tail, exp_args, exp_opts = apptree.gen_line(w, chain, fill_all=True)
        tail = list(tail) + ["zz%d" % i for i in range(w.randint(1, 2))]
        lenient_surplus = True
    kinds = [k for k in SWITCHES if w.chance(0.3)]
    # at most one verbosity switch
    vs = [k for k in kinds if k in LEVEL_OF]
    for k in vs[1:]:
        kinds.remove(k)
    w.shuffle(kinds)
    help_line = "complete"
    if "help" in kinds and not use_tail and plain_target:
        # asking for help is what one does with a line that is NOT yet a valid invocation: required
        # arguments missing, or more arguments than the command declares
        help_line = w.weighted([("complete", 5), ("bare", 3), ("surplus", 2)])
        if help_line == "bare":
            tail = []
        elif help_line == "surplus":
            # every declared argument is filled first, so the extra tokens are surplus and nothing else
            # (a token that lands in a typed argument and cannot be converted is another matter)
            tail, exp_args, exp_opts = apptree.gen_line(w, chain, fill_all=True)
            if any(a[0] == "rest" for a in cmd["args"]):
                help_line = "complete"
            else:
                tail = list(tail) + ["zz%d" % i for i in range(w.randint(1, 3))]
    base = list(path) + list(tail)
    switches = []
    for k in kinds:
        sp = w.pick(SWITCHES[k])
        if k in ("help", "version") or w.chance(0.85):
            pos = w.randint(len(path), len(base))
        else:
            pos = w.randint(0, max(0, len(path) - 1))
        if sp == "-v":
            ok = [p for p in range(len(path), len(base) + 1) if p == len(base) or base[p].startswith("-")]
            pos = w.pick(ok)
        switches.append([k, sp, pos])
    dd_tail = []
    if use_tail:
        dd_tail = [w.pick(sum(SWITCHES.values(), [])) for _ in range(w.randint(1, 3))]
    x = S("extension")
    leading_dd = [x.pick(sum(SWITCHES.values(), [])) for _ in range(x.randint(1, 2))] if x.chance(0.04) else None
    return {
        "leading_dd": leading_dd,
        "app": spec, "path": path, "tail": tail, "exp_args": exp_args, "exp_opts": exp_opts, "hid": cmd["hid"],
        "switches": switches, "dd_tail": dd_tail, "use_dd": use_tail, "plain_target": plain_target, "help_line": help_line,
        "tty_out": c.chance(0.5), "tty_err": c.chance(0.5),
        "raises": f.chance(0.25), "question_default": c.chance(0.5),
        "input": f.pick([[], [], ["y\n"], ["n\n"], ["\n"]]),
        # how the handler is attached: an object, or a factory that builds one when asked; with the
        # version switch after the path the handler is not needed at all - the factory may be broken
        "app_style": c.chance(0.3), "lenient_surplus": lenient_surplus,
        "handler_kind": ("factory_raises" if ("version" in kinds and "help" not in kinds and all(p_ >= len(path) for _, _, p_ in switches) and f.chance(0.5))
                         else c.pick(["object", "object", "factory"])),
    }


def simplify(sc):
    for k, v in (("raises", False), ("tty_out", False), ("tty_err", False), ("input", [])):
        if sc[k] != v:
            yield dict(sc, **{k: v})
    spec = sc["app"]
    if len(spec["commands"]) > 1:
        keep = [c for c in spec["commands"] if c["name"] == sc["path"][0]]
        if keep:
            yield dict(sc, app=dict(spec, commands=keep))
    for i, (k, sp, pos) in enumerate(sc["switches"]):
        n = len(sc["path"]) + len(sc["tail"])
        if pos != n and sp != "-v":
            yield dict(sc, switches=sc["switches"][:i] + [[k, sp, n]] + sc["switches"][i + 1:])


def condition(sc, v):
    return {}


def _tokens(sc):
    if sc.get("leading_dd"):
        # nothing but the separator and, behind it, words that look like switches: the default command
        # receives them as plain arguments
        return ["--"] + list(sc["leading_dd"])
    base = list(sc["path"]) + list(sc["tail"])
    ins = {}
    for k, sp, pos in sc["switches"]:
        ins.setdefault(min(pos, len(base)), []).append(sp)
    out = []
    for i in range(len(base) + 1):
        out.extend(ins.get(i, []))
        if i < len(base):
            out.append(base[i])
    if sc["use_dd"] and sc["dd_tail"]:
        out.append("--")
        out.extend(sc["dd_tail"])
    return out


def execute(sc):
    import clikit.ui.components.progress_bar as pb
    import clikit.ui.components.progress_indicator as pi
    from ..clock import TimeShim, VirtualClock
    old = {k: os.environ.get(k) for k in ("COLUMNS", "LINES")}
    os.environ["COLUMNS"], os.environ["LINES"] = "120", "40"
    shim = TimeShim(VirtualClock())
    old_t = (pb.time, pi.time)
    pb.time = pi.time = shim  # the components the handler uses read a frozen virtual clock
    try:
        return _run(sc)
    finally:
        pb.time, pi.time = old_t
        for k, v in old.items():
            if v is None:
                os.environ.pop(k, None)
            else:
                os.environ[k] = v


def _find_command(app, path):
    cmd = app.get_command(path[0])
    for name in path[1:]:
        cmd = cmd.get_sub_command(name)
    return cmd


def _run(sc):
    from clikit.api.event import PRE_HANDLE
    from clikit.args import ArgvArgs
    from clikit.ui.help import CommandHelp

    res = Result()
    log = EventLog()
    inv = []
    seen = []
    kinds = [s[0] for s in sc["switches"]]
    base_len = len(sc["path"]) + len(sc["tail"])
    early = any(pos < len(sc["path"]) for _, _, pos in sc["switches"])
    if early:
        res.probe("early_placement")
    script = []
    for flag, tag in TAGGED:
        script.append(["out", "<info>OUT-%s</info>" % tag, flag])
        script.append(["err", "<comment>ERR-%s</comment>" % tag, flag])
    if sc.get("app_style"):
        # a style the application registered through its configuration
        script.append(["out", "<warn>OUT-W</warn>", None])
        script.append(["err", "<warn>ERR-W</warn>", None])
    script.append(["section", "<info>SEC-one</info>", "<info>SEC-two</info>"])
    if sc.get("components", True):
        script.append(["indicator"])
        script.append(["progress"])
    script.append(["ask", sc["question_default"]])
    script.append(["readline", "fallback-line"])
    if sc["raises"]:
        script.append(["raise", {"type": "ValueError", "msg": "handler failed", "cause": None, "context": None}])
    else:
        script.append(["return", 0])

    def observer(event, event_name, dispatcher):
        io = event.io
        seen.append({"quiet": io.is_quiet(), "verbosity": io.verbosity, "interactive": io.is_interactive(),
                     "command": event.command.full_name})

    scripts = {}

    def all_hids(cmds):
        for c in cmds:
            yield c["hid"]
            for x in all_hids(c["subs"]):
                yield x

    for h in all_hids(sc["app"]["commands"]):
        scripts[h] = script
    def hook(config):
        if sc.get("app_style"):
            from clikit.api.formatter import Style
            config.add_style(Style("warn").fg("yellow").bold())

    app = apptree.build_app(sc["app"], scripts, inv, [(PRE_HANDLE, observer, -100)], config_hook=hook,
                            handler_kinds={sc["hid"]: sc.get("handler_kind", "object")})
    if sc.get("app_style"):
        res.probe("style_registered_through_the_configuration")
    if sc.get("handler_kind") == "factory_raises":
        res.fault("handler_factory_raises")
        res.probe("version_with_unbuildable_handler")
    tokens = _tokens(sc)
    out = SimOutputStream("out", log, ansi=sc["tty_out"])
    err = SimOutputStream("err", log, ansi=sc["tty_err"])
    inp = SimInputStream(log, list(sc["input"]))
    raised, status = None, None
    try:
        status = app.run(ArgvArgs(["prog"] + tokens), inp, out, err)
    except BaseException as e:
        raised = e
    log.add("status", repr(status), type(raised).__name__ if raised else None)
    res.events = log.events
    res.steps = len(tokens)
    o, e = out.data(), err.data()
    if raised is not None:
        res.violate("escapes", type(raised).__name__, "run raised %r for %r" % (raised, tokens))
        return res

    if sc.get("leading_dd"):
        res.probe("separator_is_first_token")
        res.nontrivial = True
        res.states.add(("leading_dd", tuple(sc["leading_dd"]), sc["tty_out"], sc["tty_err"]))
        if not o and not e:
            res.violate("dashdash", "quiet_behind_leading_separator", "run of %r wrote nothing at all" % (tokens,))
        for name, data, tty in (("stdout", o, sc["tty_out"]), ("stderr", e, sc["tty_err"])):
            if not tty and "\x1b[" in data:
                res.violate("dashdash", "ansi_behind_leading_separator", "%s of %r carries escape sequences on a plain stream" % (name, tokens))
        for s_ in seen:
            if s_["quiet"] or s_["verbosity"] != 0 or not s_["interactive"]:
                res.violate("dashdash", "io_state_behind_leading_separator", "IO state %r for %r" % (s_, tokens))
        return res
    has = lambda k: k in kinds
    level = 0
    for k in kinds:
        if k in LEVEL_OF:
            level = LEVEL_OF[k]
            res.probe("verbosity_" + k)
    if sc["use_dd"] and sc["dd_tail"]:
        res.probe("switch_after_dashdash")

    # ---- placement-independent clauses ------------------------------------------------------------
    if has("quiet"):
        if o or e:
            res.violate("quiet", "bytes", "quiet run wrote stdout %r stderr %r (tokens %r)" % (o[:60], e[:60], tokens))
        if sc["raises"]:
            res.probe("quiet_with_raise")
            res.fault("handler_raises_under_quiet")
    if has("no_ansi") and not has("ansi"):
        if "\r" in o or "\r" in e:
            res.violate("no_ansi", "carriage_return", "--no-ansi run emitted a carriage return (cursor control) (tokens %r)" % (tokens,))
        if "\x1b" in o or "\x1b" in e:
            res.violate("no_ansi", "escape", "--no-ansi run emitted an escape sequence (tokens %r): %r" % (tokens, (o + e)[:80]))
        if sc["tty_out"] or sc["tty_err"]:
            res.probe("no_ansi_on_tty")
    for s in seen:
        if has("no_interaction") and s["interactive"]:
            res.violate("no_interaction", "io_state", "handler sees an interactive IO although -n was given (tokens %r)" % tokens)
        if s["verbosity"] != level:
            res.violate("verbosity", "io_state", "IO verbosity %r, switches select %r (tokens %r)" % (s["verbosity"], level, tokens))
        if s["quiet"] != has("quiet"):
            res.violate("quiet", "io_state", "IO quiet=%r, switches say %r (tokens %r)" % (s["quiet"], has("quiet"), tokens))
    if has("no_interaction"):
        if inp.reads:
            res.violate("no_interaction", "reads", "%d reads from the input although -n was given" % inp.reads)
        if not sc["input"]:
            res.probe("no_interaction_empty_input")
            res.fault("empty_input_under_no_interaction")

    res.states.add((tuple(sorted(kinds)), early, sc["tty_out"], sc["tty_err"], sc["raises"], bool(sc["dd_tail"])))
    res.nontrivial = len(kinds) >= 2 or (kinds and sc["raises"]) or bool(sc["dd_tail"])
    if early:
        return res

    # ---- switches after the command path -------------------------------------------------------------
    hids = [r["hid"] for r in inv]
    if has("help"):
        res.probe("help_after_path")
        if sc.get("help_line", "complete") != "complete":
            res.probe("help_on_incomplete_or_surplus_line")
        if status != 0:
            res.violate("help", "status", "help run returned %r (tokens %r)" % (status, tokens))
        if hids:
            res.violate("help", "handler_invoked", "handler %r ran on a help request" % hids)
        if not has("quiet") and not has("version") and sc.get("plain_target", True):
            # expected page: CommandHelp of that command on an equivalent IO
            app2 = apptree.build_app(sc["app"], {}, [])
            out2 = SimOutputStream("out2", EventLog(), ansi=sc["tty_out"])
            err2 = SimOutputStream("err2", EventLog(), ansi=sc["tty_err"])
            io2 = app2.config.create_io(app2, ArgvArgs(["prog"] + tokens), SimInputStream(EventLog(), []), out2, err2)
            CommandHelp(_find_command(app2, sc["path"])).render(io2)
            if o != out2.data() or e != err2.data():
                res.violate("help", "page", "help output differs from CommandHelp(%s): got %r..., expected %r..." % (" ".join(sc["path"]), o[:120], out2.data()[:120]))
        return res
    if has("version"):
        res.probe("version_after_path")
        if status != 0:
            res.violate("version", "status", "version run returned %r (tokens %r)" % (status, tokens))
        if hids:
            res.violate("version", "handler_invoked", "handler %r ran on a version request" % hids)
        if not has("quiet"):
            disp = re.sub(r"[\s\-_]+", " ", sc["app"]["name"]).title()
            want = "%s version %s\n" % (disp, sc["app"]["version"])
            if strip_ansi(o) != want:
                res.violate("version", "text", "version output %r, expected %r" % (o[:100], want))
        return res

    # ---- the handler ran -------------------------------------------------------------------------------
    if hids != [sc["hid"]]:
        res.violate("handler", "which", "handlers run %r, expected [%r] (tokens %r)" % (hids, sc["hid"], tokens))
        return res
    rec = inv[0]
    exp_args = dict(sc["exp_args"])
    if sc["use_dd"] and sc["dd_tail"]:
        exp_args["rest"] = list(exp_args.get("rest", [])) + list(sc["dd_tail"])
    if rec["arguments"] != exp_args:
        res.violate("dashdash", "arguments", "handler saw arguments %r, expected %r (tokens %r)" % (rec["arguments"], exp_args, tokens))
    interactive = not has("no_interaction")
    want_answer = None
    if not interactive:
        want_answer = sc["question_default"]
    elif sc["input"]:
        res.probe("question_read")
        a = sc["input"][0].strip()
        want_answer = sc["question_default"] if a == "" else a.lower().startswith("y")
    if rec["answers"]:
        if want_answer is not None and bool(rec["answers"][0]) != bool(want_answer):
            res.violate("no_interaction" if not interactive else "question", "answer", "question returned %r, expected %r" % (rec["answers"][0], want_answer))
    elif want_answer is not None:
        res.violate("question", "missing", "the question did not return (expected %r)" % want_answer)
    if not interactive and rec.get("lines") != ["fallback-line"]:
        res.violate("no_interaction", "read_line", "io.read_line(default=...) returned %r under -n" % (rec.get("lines"),))
    want_status = 1 if (sc["raises"] or (interactive and not sc["input"])) else 0
    if (status != 0) != (want_status != 0):
        res.violate("status", "handler", "status %r, expected %s (tokens %r)" % (status, "non-zero" if want_status else 0, tokens))
    if has("quiet"):
        return res
    # verbosity: exactly the tagged lines of levels <= selected arrive
    so, se = strip_ansi(o), strip_ansi(e)
    for flag, tag in TAGGED:
        should = (flag or 0) <= level
        if ("OUT-%s\n" % tag in so) != should:
            res.violate("verbosity", "stdout_lines", "line of level %r %s at verbosity %r (tokens %r)" % (flag, "missing" if should else "present", level, tokens))
        if ("ERR-%s\n" % tag in se) != should:
            res.violate("verbosity", "stderr_lines", "line of level %r %s at verbosity %r (tokens %r)" % (flag, "missing" if should else "present", level, tokens))
    if sc.get("app_style") and ("OUT-W\n" not in so or "ERR-W\n" not in se):
        res.violate("ansi" if not ("\x1b[" in o) else "handler", "application_style", "text written with the application's own style tag arrived as %r / %r" % (
            [l for l in so.split("\n") if "OUT-W" in l], [l for l in se.split("\n") if "ERR-W" in l]))
    if "spin done" not in se or "3/3" not in se:
        res.violate("handler", "components", "progress indicator / progress bar output missing on stderr: %r" % se[-160:])
    if "SEC-two\n" not in so:
        res.violate("handler", "section_output", "the section written by the handler is missing: %r" % so[-120:])
    # decoration
    if not (has("ansi") and has("no_ansi")):
        for name, data, tty in (("stdout", o, sc["tty_out"]), ("stderr", e, sc["tty_err"])):
            want_esc = has("ansi") or (tty and not has("no_ansi"))
            if has("ansi") and not tty:
                res.probe("ansi_forced_on_plain_stream")
            if ("\x1b[" in data) != want_esc:
                res.violate("ansi", name, "%s %s escape sequences (tty=%r, switches %r)" % (name, "lacks" if want_esc else "has", tty, kinds))
    return res
