"""C06 - an args format can never be built into an inconsistent state.

System: real ArgsFormatBuilder / ArgsFormat (builder path and element-list constructor) /
CommandOption / CommandConfig.build_args_format.  Faults: rejected additions at any point of a
build history (``add_command_option`` checks four name groups before inserting into two indexes).
Reference: a per-level format model written from the statement.
"""
from ..harness import Result

PROP = "C06"
LEVEL = "exploration"
RUNS = {"quick": 120000, "thorough": 4000000}
OPS_KEYS = ("ops", "base1", "base2")
INFO = {
    "rule": "seeded histories: 0-2 base levels (each itself a short history), then <= 10 add/set operations "
            "on the top builder over a colliding pool of 3 long names, 3 letters and aliases from both; "
            "non-trivial = at least one rejected addition followed by a further operation, or >= 4 "
            "accepted operations; distinct = distinct event-log digests",
    "states_measure": "model snapshots (per level: names, options, command options, arguments) reached",
    "components_real": ["clikit.api.args.format.ArgsFormatBuilder", "clikit.api.args.format.ArgsFormat",
                        "clikit.api.args.format.CommandOption/Option/Argument/CommandName",
                        "clikit.api.config.CommandConfig.build_args_format"],
    "components_stubbed": [],
    "assumptions": [
        "set_* is modelled as clear + single additions; a failure inside leaves the accepted prefix "
        "(the statement only speaks about single additions)",
        "listing order of options across levels is compared between builder and built format only; "
        "argument order across levels must satisfy the ordering rules as listed",
    ],
}
EXPECTED_PROBES = ("rejected_then_continued", "copt_alias_collision", "base_collision",
                   "required_after_optional_rejected", "after_multi_rejected", "set_after_add",
                   "elements_ctor_rejects")

LONGS = ["aa", "bb", "cc"]
LETTERS = ["a", "b", "c"]
ARGNAMES = ["x1", "x2", "x3", "x4"]
CMDNAMES = ["cmd", "sub", "leaf"]


def _gen_op(w, allow_set=True):
    k = w.weighted([("opt", 5), ("copt", 5), ("arg", 5), ("name", 1),
                    ("set_opts", 1 if allow_set else 0), ("set_copts", 1 if allow_set else 0),
                    ("set_args", 1 if allow_set else 0), ("set_names", 0.5 if allow_set else 0)])
    if k == "opt":
        return ["opt", w.pick(LONGS), w.pick(LETTERS + [None, None]), w.pick([4, 8, 16, 32])]
    if k == "copt":
        al = [w.pick(LONGS + LETTERS) for _ in range(w.weighted([(0, 4), (1, 3), (2, 2)]))]
        return ["copt", w.pick(LONGS), w.pick(LETTERS + [None, None]), al]
    if k == "arg":
        return ["arg", w.pick(ARGNAMES), w.pick([1, 1, 2, 2, 1 | 4, 2 | 4])]
    if k == "name":
        return ["name", w.pick(CMDNAMES), [w.pick(["n1", "n2"])] if w.chance(0.3) else []]
    n = w.randint(0, 3)
    if k == "set_opts":
        return ["set_opts", [_gen_op_kind(w, "opt") for _ in range(n)]]
    if k == "set_copts":
        return ["set_copts", [_gen_op_kind(w, "copt") for _ in range(n)]]
    if k == "set_args":
        return ["set_args", [_gen_op_kind(w, "arg") for _ in range(n)]]
    return ["set_names", [_gen_op_kind(w, "name") for _ in range(n)]]


def _gen_op_kind(w, kind):
    while True:
        op = _gen_op(w, allow_set=False)
        if op[0] == kind:
            return op


def gen(S, tier):
    w = S("workload")
    nb = w.weighted([(0, 4), (1, 4), (2, 2)])
    sc = {"base1": [], "base2": [], "ops": []}
    if nb >= 1:
        sc["base1"] = [_gen_op(w) for _ in range(w.randint(0, 5))]
    if nb >= 2:
        sc["base2"] = [_gen_op(w) for _ in range(w.randint(0, 5))]
    sc["ops"] = [_gen_op(w) for _ in range(w.randint(1, 10))]
    sc["levels"] = nb
    # a format is taken from the builder after this many operations and queried again at the end:
    # a finished format must not change when its builder is used further
    sc["snap_at"] = w.randint(0, len(sc["ops"]))
    return sc


def simplify(sc):
    if sc.get("levels", 0) > 0:
        yield dict(sc, levels=sc["levels"] - 1)
    for key in ("ops", "base1", "base2"):
        for i, op in enumerate(sc[key]):
            if op[0] == "copt" and op[3]:
                for j in range(len(op[3])):
                    c = dict(sc)
                    c[key] = sc[key][:i] + [[op[0], op[1], op[2], op[3][:j] + op[3][j + 1:]]] + sc[key][i + 1:]
                    yield c
            if op[0] in ("opt", "copt") and op[2] is not None:
                c = dict(sc)
                c[key] = sc[key][:i] + [[op[0], op[1], None] + op[3:]] + sc[key][i + 1:]
                yield c
            if op[0].startswith("set_") and op[1]:
                for j in range(len(op[1])):
                    c = dict(sc)
                    c[key] = sc[key][:i] + [[op[0], op[1][:j] + op[1][j + 1:]]] + sc[key][i + 1:]
                    yield c


# ---- reference model ------------------------------------------------------------------------
class Level(object):
    def __init__(self):
        self.names = []   # [(string, aliases)]
        self.opts = []    # [(long, short, flags)]
        self.copts = []   # [(long, short, long_aliases, short_aliases)]
        self.args = []    # [(name, flags)]

    def snap(self):
        return (tuple(map(repr, self.names)), tuple(self.opts), tuple(map(repr, self.copts)), tuple(self.args))


class Model(object):
    def __init__(self, levels):
        self.levels = levels  # base first, top last

    def top(self):
        return self.levels[-1]

    def long_names(self, levels=None):
        out = {}
        for lv in (levels or self.levels):
            for o in lv.opts:
                out[o[0]] = ("opt", o[0])
        return out

    def all_option_names(self, levels):
        """name -> list of owners (kind, long_name) over the given levels"""
        owners = {}
        for lv in levels:
            for o in lv.opts:
                owners.setdefault(o[0], []).append(("opt", o[0]))
                if o[1]:
                    owners.setdefault(o[1], []).append(("opt", o[0]))
            for c in lv.copts:
                for n in [c[0]] + ([c[1]] if c[1] else []) + list(c[2]) + list(c[3]):
                    owners.setdefault(n, []).append(("copt", c[0]))
        return owners

    def can_add_option(self, long_name, short):
        owners = self.all_option_names(self.levels)
        return long_name not in owners and (short is None or short not in owners)

    def can_add_copt(self, long_name, short, la, sa):
        owners = self.all_option_names(self.levels)
        return all(n not in owners for n in [long_name] + ([short] if short else []) + la + sa)

    def all_args(self, levels=None):
        out = []
        for lv in (levels or self.levels):
            out.extend(lv.args)
        return out

    def can_add_arg(self, name, flags):
        args = self.all_args()
        if any(a[0] == name for a in args):
            return False
        if any(a[1] & 4 for a in args):
            return False
        if flags & 1 and any(a[1] & 2 for a in args):
            return False
        return True


def _split_aliases(al):
    la = [a for a in al if len(a) > 1]
    sa = [a for a in al if len(a) == 1]
    return la, sa


def _mk(op):
    from clikit.api.args.format import Argument, CommandName, CommandOption, Option
    if op[0] == "opt":
        return Option(op[1], op[2], op[3])
    if op[0] == "copt":
        return CommandOption(op[1], op[2], list(op[3]))
    if op[0] == "arg":
        return Argument(op[1], op[2])
    return CommandName(op[1], list(op[2]))


def _degenerate(op):
    """Elements that collide with themselves are not generated workload (not a builder matter)."""
    if op[0] == "copt":
        names = [op[1]] + ([op[2]] if op[2] else []) + list(op[3])
        return len(set(names)) != len(names)
    return False


def _queries(obj, probe_names):
    """Every public query of a builder / format, as plain data."""
    out = {}
    for inc in (True, False):
        out[("names", inc)] = [(n.string, tuple(n.aliases)) for n in obj.get_command_names(inc)]
        out[("has_names", inc)] = bool(obj.has_command_names(inc))
        out[("args", inc)] = [(a.name, a.flags) for a in obj.get_arguments(inc).values()]
        out[("arg_keys", inc)] = list(obj.get_arguments(inc).keys())
        out[("opts", inc)] = [(o.long_name, o.short_name, o.flags) for o in obj.get_options(inc).values()]
        out[("opt_keys", inc)] = list(obj.get_options(inc).keys())
        out[("copts", inc)] = [c.long_name for c in obj.get_command_options(inc)]
        for q in ("has_arguments", "has_options", "has_command_options", "has_multi_valued_argument",
                  "has_optional_argument", "has_required_argument"):
            out[(q, inc)] = bool(getattr(obj, q)(inc))
        for n in probe_names:
            out[("has_option", n, inc)] = bool(obj.has_option(n, inc))
            out[("has_command_option", n, inc)] = bool(obj.has_command_option(n, inc))
            out[("get_option", n, inc)] = _try(lambda: obj.get_option(n, inc).long_name)
            out[("get_command_option", n, inc)] = _try(lambda: obj.get_command_option(n, inc).long_name)
        for n in ARGNAMES:
            out[("has_argument", n, inc)] = bool(obj.has_argument(n, inc))
            out[("get_argument", n, inc)] = _try(lambda: obj.get_argument(n, inc).name)
        for p in range(5):
            out[("has_argument", p, inc)] = bool(obj.has_argument(p, inc))
            out[("get_argument", p, inc)] = _try(lambda: obj.get_argument(p, inc).name)
    return out


def _try(f):
    try:
        return f()
    except Exception as e:
        return "!" + type(e).__name__


def _apply_level(builder, lv, ops, res, model, log, top, snap_at=None, snaps=None):
    """Applies ops to a real builder and the model level; returns list of accepted element ops."""
    from clikit.api.args.exceptions import CannotAddArgumentException, CannotAddOptionException
    accepted = []
    probe_names = LONGS + LETTERS
    rejected_once = False

    def single(op, where):
        nonlocal rejected_once
        if _degenerate(op):
            return
        try:
            el = _mk(op)
        except Exception:
            return  # element itself invalid: C07's business
        if op[0] == "opt":
            ok = model.can_add_option(op[1], op[2])
        elif op[0] == "copt":
            la, sa = _split_aliases(op[3])
            ok = model.can_add_copt(op[1], op[2], la, sa)
        elif op[0] == "arg":
            ok = model.can_add_arg(op[1], op[2])
        else:
            ok = True
        before = _queries(builder, probe_names) if top else None
        try:
            if op[0] == "opt":
                builder.add_option(el)
            elif op[0] == "copt":
                builder.add_command_option(el)
            elif op[0] == "arg":
                builder.add_argument(el)
            else:
                builder.add_command_name(el)
            raised = None
        except (CannotAddOptionException, CannotAddArgumentException) as e:
            raised = e
        except (RuntimeError, ValueError) as e:
            raised = e  # another error class of the library's kind: still a rejection
        except Exception as e:
            raised = e
            res.violate("rejection_class", where, "%s failed with %s: %s (a crash, not a rejection)" % (op, type(e).__name__, e))
        log.append((where, op[0], op[1], raised is None))
        if raised is None and not ok:
            res.violate("accepts_invalid", op[0], "builder accepted %r although the model rejects it (levels %r)" % (
                op, [l.snap() for l in model.levels]))
        if raised is not None and ok:
            res.violate("rejects_valid", op[0], "builder rejected %r (%s) although the model accepts it" % (op, raised))
        if raised is not None:
            res.fault("rejected_addition")
            if rejected_once or True:
                rejected_once = True
            if top and _queries(builder, probe_names) != before:
                after = _queries(builder, probe_names)
                diff = [k for k in before if before[k] != after[k]]
                res.violate("not_atomic", op[0], "builder changed after rejected %r: %r" % (op, diff[:6]))
            if op[0] == "copt":
                res.probe("copt_alias_collision" if op[3] else "copt_collision")
            if op[0] == "arg":
                if op[2] & 1 and any(a[1] & 2 for a in model.all_args()):
                    res.probe("required_after_optional_rejected")
                if any(a[1] & 4 for a in model.all_args()):
                    res.probe("after_multi_rejected")
            if len(model.levels) > 1 and op[0] in ("opt", "copt"):
                owners = model.all_option_names(model.levels[:-1])
                names = [op[1]] + ([op[2]] if op[2] else []) + (list(op[3]) if op[0] == "copt" else [])
                if any(n in owners for n in names):
                    res.probe("base_collision")
        # the model follows the *builder's* decision so that one disagreement is reported once
        if raised is None:
            if op[0] == "opt":
                lv.opts.append((op[1], op[2], el.flags))
            elif op[0] == "copt":
                la, sa = _split_aliases(op[3])
                lv.copts.append((op[1], op[2], la, sa))
            elif op[0] == "arg":
                lv.args.append((op[1], el.flags))
            else:
                lv.names.append((op[1], tuple(op[2])))
            accepted.append(op)
        return raised

    n_acc = 0
    had_reject = False
    for op_index, op in enumerate(ops):
        if snaps is not None and op_index == snap_at:
            f_mid = builder.format
            snaps.append((f_mid, _queries(f_mid, probe_names)))
        res.steps += 1
        k = op[0]
        if k.startswith("set_"):
            if accepted:
                res.probe("set_after_add")
            kind = {"set_opts": "opt", "set_copts": "copt", "set_args": "arg", "set_names": "name"}[k]
            els = []
            for sub in op[1]:
                if sub[0] != kind or _degenerate(sub):
                    continue
                try:
                    els.append((sub, _mk(sub)))
                except Exception:
                    pass
            # model: clear + additions (prefix semantics on failure)
            if kind == "opt":
                lv.opts = []
            elif kind == "copt":
                lv.copts = []
            elif kind == "arg":
                lv.args = []
            else:
                lv.names = []
            accepted[:] = [a for a in accepted if a[0] != kind]
            expect_ok = []
            tmp_ok = True
            # decide with the model, element by element
            try:
                if kind == "opt":
                    builder.set_options()
                elif kind == "copt":
                    builder.set_command_options()
                elif kind == "arg":
                    builder.set_arguments()
                else:
                    builder.set_command_names()
            except Exception as e:
                res.violate("op_raised", k, "clearing raised %s: %s" % (type(e).__name__, e))
                continue
            for sub, _ in els:
                r = single(sub, k)
                if r is not None:
                    break
        else:
            if had_reject:
                res.probe("rejected_then_continued")
            r = single(op, "add")
            if r is not None:
                had_reject = True
            else:
                n_acc += 1
    return accepted, n_acc, had_reject


def _check_against_model(res, obj, model, who, with_base):
    """Queries of a builder/format vs what the listed elements imply."""
    levels_all = model.levels
    top = [model.top()]
    for inc in (True, False):
        levels = levels_all if (inc and with_base) else top
        q_args = [(a.name, a.flags) for a in obj.get_arguments(inc).values()]
        want_args = model.all_args(levels)
        if sorted(q_args) != sorted(want_args):
            res.violate("listing", who + ".get_arguments", "include_base=%r lists %r, elements imply %r" % (inc, q_args, want_args))
        elif inc:
            # ordering rules must hold in the order listed
            seen_opt = seen_multi = False
            for n, f in q_args:
                if seen_multi:
                    res.violate("order_rule", who + ".get_arguments", "argument %s listed after a multi-valued one: %r" % (n, q_args))
                    break
                if f & 1 and seen_opt:
                    res.violate("order_rule", who + ".get_arguments", "required %s listed after an optional one: %r" % (n, q_args))
                    break
                seen_opt = seen_opt or bool(f & 2)
                seen_multi = seen_multi or bool(f & 4)
        # own-level order is insertion order
        if not inc and q_args != want_args:
            res.violate("listing", who + ".get_arguments(False)", "own arguments %r, inserted %r" % (q_args, want_args))
        for p in range(len(q_args) + 1):
            has = bool(obj.has_argument(p, inc))
            if has != (p < len(q_args)):
                res.violate("query", who + ".has_argument(pos)", "position %d include_base=%r -> %r with %d arguments" % (p, inc, has, len(q_args)))
            if p < len(q_args):
                g = _try(lambda: obj.get_argument(p, inc).name)
                if g != q_args[p][0]:
                    res.violate("query", who + ".get_argument(pos)", "position %d gives %r, listing has %r" % (p, g, q_args[p][0]))
        want = {
            "has_arguments": bool(want_args),
            "has_multi_valued_argument": any(f & 4 for _, f in want_args),
            "has_optional_argument": any(f & 2 for _, f in want_args),
            "has_required_argument": any(f & 1 for _, f in want_args),
        }
        for qn, wv in want.items():
            gv = bool(getattr(obj, qn)(inc))
            if gv != wv:
                res.violate("predicate", who + "." + qn, "include_base=%r gives %r, listed arguments %r imply %r" % (inc, gv, want_args, wv))
        # options
        owners = model.all_option_names(levels)
        q_opts = sorted((o.long_name, o.short_name) for o in obj.get_options(inc).values())
        want_opts = sorted((o[0], o[1]) for lv in levels for o in lv.opts)
        if q_opts != want_opts:
            res.violate("listing", who + ".get_options", "include_base=%r lists %r, elements imply %r" % (inc, q_opts, want_opts))
        q_copts = [c.long_name for c in obj.get_command_options(inc)]
        want_copts = sorted(c[0] for lv in levels for c in lv.copts)
        if sorted(q_copts) != want_copts:
            res.violate("listing", who + ".get_command_options", "include_base=%r lists %r, elements imply %r" % (inc, q_copts, want_copts))
        if bool(obj.has_options(inc)) != bool(want_opts):
            res.violate("predicate", who + ".has_options", "include_base=%r gives %r for %r" % (inc, obj.has_options(inc), want_opts))
        if bool(obj.has_command_options(inc)) != bool(want_copts):
            res.violate("predicate", who + ".has_command_options", "include_base=%r gives %r for %r" % (inc, obj.has_command_options(inc), want_copts))
        for n in LONGS + LETTERS:
            own = owners.get(n, [])
            if len(own) > 1:
                res.violate("uniqueness", who, "name %r identifies %r" % (n, own))
                continue
            is_opt = bool(own) and own[0][0] == "opt"
            is_copt = bool(own) and own[0][0] == "copt"
            if bool(obj.has_option(n, inc)) != is_opt:
                res.violate("query", who + ".has_option", "%r include_base=%r -> %r, elements imply %r" % (n, inc, obj.has_option(n, inc), is_opt))
            if bool(obj.has_command_option(n, inc)) != is_copt:
                res.violate("query", who + ".has_command_option", "%r include_base=%r -> %r, elements imply %r" % (n, inc, obj.has_command_option(n, inc), is_copt))
            g = _try(lambda: obj.get_option(n, inc).long_name)
            w = own[0][1] if is_opt else "!NoSuchOptionException"
            if g != w:
                res.violate("query", who + ".get_option", "%r include_base=%r -> %r, elements imply %r" % (n, inc, g, w))
            g = _try(lambda: obj.get_command_option(n, inc).long_name)
            w = own[0][1] if is_copt else "!NoSuchOptionException"
            if g != w:
                res.violate("query", who + ".get_command_option", "%r include_base=%r -> %r, elements imply %r" % (n, inc, g, w))
        names = [(n.string, tuple(n.aliases)) for n in obj.get_command_names(inc)]
        want_names = [n for lv in levels for n in lv.names]
        if names != want_names:
            res.violate("listing", who + ".get_command_names", "include_base=%r lists %r, elements imply %r" % (inc, names, want_names))


def execute(sc):
    from clikit.api.args.format import ArgsFormat, ArgsFormatBuilder

    res = Result()
    log = res.events
    levels = []
    base_fmt = None
    nlev = sc.get("levels", 0)
    keys = ["base1", "base2"][:nlev]
    base_fmts = []
    try:
        for key in keys:
            lv = Level()
            levels.append(lv)
            model = Model(levels)
            b = ArgsFormatBuilder(base_fmt)
            _apply_level(b, lv, sc[key], res, model, log, top=False)
            base_fmt = b.format
            base_fmts.append(base_fmt)
    except Exception as e:
        res.violate("op_raised", "base_build", "%s: %s" % (type(e).__name__, e))
        return res
    # violations while building bases are reported by the run in which that level is the top one
    res.violations = []
    lv = Level()
    levels.append(lv)
    model = Model(levels)
    builder = ArgsFormatBuilder(base_fmt)
    probe_names = LONGS + LETTERS
    try:
        # what the base formats, and a second builder stacked on the same base, answer BEFORE
        # anything is added on top
        q_bases = [_queries(f, probe_names) for f in base_fmts]
        q_sibling = _queries(ArgsFormatBuilder(base_fmt), probe_names) if base_fmt is not None else None
        snaps = []
        accepted, n_acc, had_reject = _apply_level(builder, lv, sc["ops"], res, model, log, top=True,
                                                   snap_at=sc.get("snap_at"), snaps=snaps)
        for f_mid, q_mid in snaps:
            q_now = _queries(f_mid, probe_names)
            if q_now != q_mid:
                diff = sorted((k for k in q_mid if q_mid[k] != q_now[k]), key=repr)
                res.violate("finished_format_changed", str(diff[0][0]), "a format taken from the builder after %d operations answers %r differently once the builder was used further: %r -> %r" % (
                    sc.get("snap_at"), diff[0], q_mid[diff[0]], q_now[diff[0]]))
        # builder vs model
        _check_against_model(res, builder, model, "builder", True)
        fmt = builder.format
        for depth_, (f_, q_) in enumerate(zip(base_fmts, q_bases)):
            q_now = _queries(f_, probe_names)
            if q_now != q_:
                diff = sorted((k for k in q_ if q_[k] != q_now[k]), key=repr)
                res.violate("base_format_changed", str(diff[0][0]), "base format #%d answers %r differently after a builder was stacked on it: %r -> %r" % (
                    depth_, diff[0], q_[diff[0]], q_now[diff[0]]))
                break
        if q_sibling is not None:
            res.probe("sibling_builder_on_same_base")
            q_now = _queries(ArgsFormatBuilder(base_fmt), probe_names)
            if q_now != q_sibling:
                diff = sorted((k for k in q_sibling if q_sibling[k] != q_now[k]), key=repr)
                res.violate("base_format_changed", "sibling:" + str(diff[0][0]), "a second builder on the same base answers %r differently after the first was used: %r -> %r" % (
                    diff[0], q_sibling[diff[0]], q_now[diff[0]]))
        _check_against_model(res, fmt, model, "format", True)
        qb, qf = _queries(builder, probe_names), _queries(fmt, probe_names)
        if qb != qf:
            diff = sorted((k for k in qb if qb[k] != qf[k]), key=repr)
            k = diff[0]
            res.violate("builder_vs_format", str(k[0]), "query %r: builder %r, built format %r (%d queries differ)" % (k, qb[k], qf[k], len(diff)))
        # element-list constructor enforces the same rules
        els = []
        for op in accepted:
            els.append(_mk(op))
        try:
            f2 = ArgsFormat(els, base_fmt)
            q2 = _queries(f2, probe_names)
            if q2 != qf:
                diff = sorted((k for k in q2 if q2[k] != qf[k]), key=repr)
                res.violate("elements_ctor", "differs", "ArgsFormat(elements, base) answers %r differently from builder.format, e.g. %r: %r vs %r" % (len(diff), diff[0], q2[diff[0]], qf[diff[0]]))
        except Exception as e:
            res.violate("elements_ctor", "rejects_valid", "ArgsFormat(accepted elements, base) raised %s: %s" % (type(e).__name__, e))
        # a rejected single addition must also be rejected by the constructor path
        for op in sc["ops"]:
            if op[0] in ("opt", "copt", "arg") and not _degenerate(op):
                try:
                    el = _mk(op)
                except Exception:
                    continue
                if op[0] == "opt":
                    ok = model.can_add_option(op[1], op[2])
                elif op[0] == "copt":
                    la, sa = _split_aliases(op[3])
                    ok = model.can_add_copt(op[1], op[2], la, sa)
                else:
                    ok = model.can_add_arg(op[1], op[2])
                if not ok:
                    try:
                        ArgsFormat([_mk(a) for a in accepted] + [el], base_fmt)
                        res.violate("elements_ctor", "accepts_invalid", "ArgsFormat(elements + [%r], base) accepted an element the rules reject (levels %r)" % (op, [l.snap() for l in model.levels]))
                    except Exception:
                        res.probe("elements_ctor_rejects")
                    break
        # commands stack their format on the parent's: CommandConfig.build_args_format(base)
        from clikit.api.config.command_config import CommandConfig
        plain = [op for op in accepted if op[0] in ("opt", "arg")]

        def via_config(ops_):
            cc = CommandConfig("cmdname")
            for op in ops_:
                if op[0] == "opt":
                    cc.add_option(op[1], op[2], op[3])
                else:
                    cc.add_argument(op[1], op[2])
            return cc.build_args_format(base_fmt)

        # one long-lived config object, every plain operation of the history (accepted or not):
        # a rejected declaration leaves the config as it was
        cc = CommandConfig("cmdname")

        def listing():
            os_ = cc.options.values() if isinstance(cc.options, dict) else cc.options
            as_ = cc.arguments.values() if isinstance(cc.arguments, dict) else cc.arguments
            return [(o.long_name, o.short_name) for o in os_], [a_.name for a_ in as_]

        intact = True
        for op in sc["ops"]:
            if op[0] not in ("opt", "arg") or _degenerate(op):
                continue
            before = listing()
            try:
                if op[0] == "opt":
                    cc.add_option(op[1], op[2], op[3])
                else:
                    cc.add_argument(op[1], op[2])
                ok = True
            except Exception:
                ok = False
            after = listing()
            if not ok:
                res.probe("config_level_rejection")
                if after != before:
                    res.violate("command_config", "rejected_addition_changed_config", "the rejected %r changed the config: options/arguments %r -> %r" % (op, before, after))
                    intact = False
                    break
            elif op[0] == "opt" and after != (before[0] + [(op[1], op[2])], before[1]):
                res.violate("command_config", "accepted_addition", "after add_option%r the config lists %r (before: %r)" % (tuple(op[1:]), after, before))
                intact = False
                break
            elif op[0] == "arg" and after != (before[0], before[1] + [op[1]]):
                res.violate("command_config", "accepted_addition", "after add_argument%r the config lists %r (before: %r)" % (tuple(op[1:]), after, before))
                intact = False
                break
        if intact:
            try:
                f4 = cc.build_args_format(None)
                lo = [(o.long_name, o.short_name) for o in f4.get_options(False).values()]
                la_ = [a_.name for a_ in f4.get_arguments(False).values()]
                if (sorted(lo, key=repr), la_) != (sorted(listing()[0], key=repr), listing()[1]):
                    res.violate("command_config", "format_vs_config", "build_args_format lists %r / %r, the config lists %r" % (lo, la_, listing()))
            except Exception as e:
                res.violate("command_config", "rejects_valid", "build_args_format() of a config holding only accepted declarations raised %s: %s" % (type(e).__name__, e))
        # a command tree of its own (no application): each sub-command stacks its format on its parent's
        if levels[:-1] and not any(l.copts for l in levels):
            from clikit.api.command import Command
            cfgs = []
            for i_, l in enumerate(levels):
                c_ = CommandConfig("lvl%d" % i_)
                for o in l.opts:
                    c_.add_option(o[0], o[1], o[2])
                for a in l.args:
                    c_.add_argument(a[0], a[1])
                if cfgs:
                    cfgs[-1].add_sub_command_config(c_)
                cfgs.append(c_)
            res.probe("detached_command_tree")
            try:
                cmd = Command(cfgs[0])
                for i_ in range(1, len(cfgs)):
                    cmd = cmd.get_sub_command("lvl%d" % i_)
                lf = cmd.args_format
                got_names = [n.string for n in lf.get_command_names()]
                got_args = [a.name for a in lf.get_arguments().values()]
                got_opts = sorted(o.long_name for o in lf.get_options().values())
                want_opts = sorted(o[0] for l in levels for o in l.opts)
                if got_names != ["lvl%d" % i_ for i_ in range(len(cfgs))] or got_args != [a[0] for a in model.all_args()] or got_opts != want_opts:
                    res.violate("command_tree", "stacking", "sub-command of a command tree without application: names %r arguments %r options %r; levels imply %r / %r / %r" % (
                        got_names, got_args, got_opts, ["lvl%d" % i_ for i_ in range(len(cfgs))], [a[0] for a in model.all_args()], want_opts))
                # an anonymous sub-command that declares nothing still stacks a level of its own (an empty
                # one) on its parent's format
                cfgs3 = []
                for i_, l in enumerate(levels):
                    c_ = CommandConfig("lvl%d" % i_)
                    for o in l.opts:
                        c_.add_option(o[0], o[1], o[2])
                    for a in l.args:
                        c_.add_argument(a[0], a[1])
                    if cfgs3:
                        cfgs3[-1].add_sub_command_config(c_)
                    cfgs3.append(c_)
                anon = CommandConfig("anon")
                anon.anonymous()
                cfgs3[-1].add_sub_command_config(anon)
                cmd3 = Command(cfgs3[0])
                for i_ in range(1, len(cfgs3)):
                    cmd3 = cmd3.get_sub_command("lvl%d" % i_)
                parent_fmt = cmd3.args_format
                af = cmd3.get_sub_command("anon").args_format
                own = ([n.string for n in af.get_command_names(False)], sorted(af.get_options(False)), list(af.get_arguments(False)))
                inherited = ([n.string for n in af.get_command_names()], sorted(o.long_name for o in af.get_options().values()), [a.name for a in af.get_arguments().values()])
                if own != ([], [], []) or af.base_format is not parent_fmt or inherited != (["lvl%d" % i_ for i_ in range(len(cfgs3))], want_opts, [a[0] for a in model.all_args()]):
                    res.violate("command_tree", "anonymous_empty_level", "anonymous sub-command without declarations: own level %r, base is parent's format: %r, with bases %r" % (
                        own, af.base_format is parent_fmt, inherited))
                # the format of a command is finished when the command is: a declaration made on the
                # parent's config afterwards (legal there) does not reach it, whenever it is first looked at
                cfgs2 = []
                for i_, l in enumerate(levels):
                    c_ = CommandConfig("lvl%d" % i_)
                    for o in l.opts:
                        c_.add_option(o[0], o[1], o[2])
                    for a in l.args:
                        c_.add_argument(a[0], a[1])
                    if cfgs2:
                        cfgs2[-1].add_sub_command_config(c_)
                    cfgs2.append(c_)
                cmd2 = Command(cfgs2[0])
                for i_ in range(1, len(cfgs2)):
                    cmd2 = cmd2.get_sub_command("lvl%d" % i_)
                cfgs2[0].add_option("declared-later")
                late = sorted(o.long_name for o in cmd2.args_format.get_options().values())
                if late != want_opts:
                    res.violate("command_tree", "finished_format_changed", "options of a sub-command %r after its parent's config got one more option (levels imply %r)" % (late, want_opts))
            except Exception as e:
                res.violate("command_tree", "rejects_valid", "command tree from accepted elements raised %s: %s" % (type(e).__name__, e))
            # ... and an element the rules reject on top of the parent levels is rejected there too
            for op in sc["ops"]:
                if op[0] in ("opt", "arg") and not _degenerate(op):
                    ok = model.can_add_option(op[1], op[2]) if op[0] == "opt" else model.can_add_arg(op[1], op[2])
                    own = Model([levels[-1]])
                    ok_alone = own.can_add_option(op[1], op[2]) if op[0] == "opt" else own.can_add_arg(op[1], op[2])
                    if not ok and ok_alone:
                        try:
                            _mk(op)
                        except Exception:
                            continue
                        try:
                            tops = []
                            for i_, l in enumerate(levels):
                                c_ = CommandConfig("lvl%d" % i_)
                                for o in l.opts:
                                    c_.add_option(o[0], o[1], o[2])
                                for a in l.args:
                                    c_.add_argument(a[0], a[1])
                                if tops:
                                    tops[-1].add_sub_command_config(c_)
                                tops.append(c_)
                            if op[0] == "opt":
                                tops[-1].add_option(op[1], op[2], op[3])
                            else:
                                tops[-1].add_argument(op[1], op[2])
                            cmd = Command(tops[0])   # registration: this is where the collision must be refused
                            res.violate("command_tree", "accepts_invalid", "a sub-command of a command tree without application accepted %r although it collides with its parents (levels %r)" % (op, [l.snap() for l in model.levels]))
                        except Exception:
                            res.probe("command_tree_rejects")
                        break
        # only when no command option of the top level could collide with what the config adds
        if not lv.copts:
            try:
                f3 = via_config(plain)
                got_o = [(o.long_name, o.short_name) for o in f3.get_options(False).values()]
                got_a = [(a.name, a.flags) for a in f3.get_arguments(False).values()]
                if sorted(got_o) != sorted((o[0], o[1]) for o in lv.opts) or got_a != list(lv.args):
                    res.violate("command_config", "differs", "CommandConfig.build_args_format lists options %r arguments %r, elements imply %r / %r" % (got_o, got_a, lv.opts, lv.args))
                names = [n.string for n in f3.get_command_names(False)]
                if names != ["cmdname"]:
                    res.violate("command_config", "names", "own command names %r" % names)
                if [a.name for a in f3.get_arguments().values()] != [a[0] for a in model.all_args()]:
                    res.violate("command_config", "argument_order", "stacked arguments %r, levels imply %r" % (list(f3.get_arguments()), [a[0] for a in model.all_args()]))
            except Exception as e:
                res.violate("command_config", "rejects_valid", "CommandConfig path raised %s: %s for accepted elements %r" % (type(e).__name__, e, plain))
            for op in sc["ops"]:
                if op[0] in ("opt", "arg") and not _degenerate(op):
                    ok = model.can_add_option(op[1], op[2]) if op[0] == "opt" else model.can_add_arg(op[1], op[2])
                    if not ok:
                        try:
                            _mk(op)
                        except Exception:
                            continue
                        try:
                            via_config(plain + [op])
                            res.violate("command_config", "accepts_invalid", "CommandConfig path accepted %r on top of %r (levels %r)" % (op, plain, [l.snap() for l in model.levels]))
                        except Exception:
                            pass
                        break
    except Exception as e:
        import traceback
        res.violate("op_raised", "top", "%s: %s | %s" % (type(e).__name__, e, traceback.format_exc()[-300:]))
        return res
    res.states.add(tuple(l.snap() for l in levels))
    res.nontrivial = (had_reject and len(sc["ops"]) > 1) or n_acc >= 4
    return res
