"""C12 - listeners run by priority then registration order until propagation stops.

System: real EventDispatcher / Event; simulated: listener actors (pass, stop propagation, raise,
register another listener while being dispatched, dispatch re-entrantly).  Reference: ordered
multiset of registrations.
"""
from ..harness import Result

PROP = "C12"
LEVEL = "exploration"
RUNS = {"quick": 60000, "thorough": 8000000}
OPS_KEYS = ("ops",)
INFO = {
    "rule": "seeded histories (<= 40 operations) of register / dispatch / query on one dispatcher with "
            "listener actors that pass, stop, raise, register during dispatch or dispatch re-entrantly; "
            "non-trivial = at least one dispatch that called >= 2 listeners after >= 1 registration "
            "following an earlier dispatch, or a listener fault fired; distinct = distinct event-log digests",
    "states_measure": "listener tables: tuple of (event, priority, behaviour) registrations, as a set",
    "components_real": ["clikit.api.event.EventDispatcher", "clikit.api.event.Event"],
    "components_stubbed": ["listeners (scripted actors)"],
    "assumptions": [
        "whether a listener registered during a dispatch runs in that same dispatch is unspecified; "
        "both are accepted, it must run in its place in the next dispatch",
        "get_listener_priority is asked only where the callable is registered under one priority for the event",
    ],
}
EXPECTED_PROBES = ("register_after_dispatch", "stop_in_middle", "equal_priority_run", "same_callable_twice",
                   "dispatch_unregistered_event", "own_empty_dispatcher_installed", "config_event_listeners")

EVENTS = ["ev.a", "ev.b", "ev.never"]
PRIOS = [-5, 0, 10]
BEHAV = ["pass", "stop", "raise", "reg", "redispatch"]


def gen(S, tier):
    w = S("workload")
    if S("config").chance(0.15):
        # application-level class: listeners registered through ApplicationConfig.add_event_listener,
        # dispatched by real runs (PRE_RESOLVE in ConsoleApplication.resolve_command, PRE_HANDLE in Command)
        ops = []
        for _ in range(w.randint(2, 14)):
            if w.chance(0.6):
                # "act": the listener uses what its event type offers besides stopping - a pre-handle
                # listener takes the command over (handled + status code), a pre-resolve listener
                # resolves to another command; neither asks for the propagation to stop
                ops.append(["reg", w.randrange(2), w.pick(PRIOS), w.weighted([("pass", 5), ("stop", 1), ("act", 1.5)])])
            else:
                ops.append(["run", w.weighted([("go", 5), ("go --version", 2), ("go --help", 1), ("go -vvv", 1.5), ("go -v", 0.5)])])
        ops.append(["run", w.weighted([("go", 3), ("go --version", 2)])])
        # the application installs a dispatcher of its own (still empty) in place of the one the default
        # configuration filled: its own listeners are then all there is
        x = S("extension")
        own = x.chance(0.25)
        # listeners for the event the application dispatches once, while it is being built
        cl = [[x.pick(PRIOS), x.weighted([("pass", 4), ("stop", 1)])] for _ in range(x.randint(1, 3))] if x.chance(0.3) else []
        return {"class": "app", "ops": ops, "own_dispatcher": own, "config_listeners": cl}
    n = w.randint(1, 40)
    p_fault = w.pick([0.0, 0.05, 0.15, 0.3])
    p_stop = w.pick([0.0, 0.1, 0.3])
    ops = []
    n_listeners = 0
    for _ in range(n):
        k = w.weighted([("reg", 5), ("dispatch", 4), ("query", 2)])
        if k == "reg":
            r = w.random()
            if r < p_fault:
                b = w.pick(["raise", "reg", "redispatch"])
            elif r < p_fault + p_stop:
                b = "stop"
            else:
                b = "pass"
            reuse = None
            if n_listeners and w.chance(0.12):
                reuse = w.randrange(n_listeners)
            else:
                n_listeners += 1
            extra = None
            if b == "reg":
                extra = [w.randrange(2), w.pick(PRIOS), w.pick(["pass", "stop"])]
            elif b == "redispatch":
                extra = [w.randrange(3)]
            ops.append(["reg", w.randrange(2), w.pick(PRIOS), b, reuse, extra])
        elif k == "dispatch":
            ops.append(["dispatch", w.weighted([(0, 5), (1, 4), (2, 1)])])
        else:
            q = w.pick(["has", "has_any", "get", "get_all", "prio"])
            ops.append(["q_" + q, w.randrange(3), w.randrange(max(1, n_listeners))])
    sc = {"ops": ops, "event_kind": S("config").weighted([(None, 6), ("own_state", 2), ("plain_object", 1)])}
    if S("config").chance(0.2):
        sc["lanes"] = [w.randrange(2) for _ in range(8)]
    return sc


def simplify(sc):
    if sc.get("class") == "app":
        for i, op in enumerate(sc["ops"]):
            if op[0] == "reg" and op[2] != 0:
                yield dict(sc, ops=sc["ops"][:i] + [[op[0], op[1], 0, op[3]]] + sc["ops"][i + 1:])
        return
    for i, op in enumerate(sc["ops"]):
        if op[0] == "reg" and op[3] not in ("pass",):
            c = dict(sc)
            c["ops"] = sc["ops"][:i] + [[op[0], op[1], op[2], "pass", op[4], None]] + sc["ops"][i + 1:]
            yield c
        if op[0] == "reg" and op[2] != 0:
            c = dict(sc)
            c["ops"] = sc["ops"][:i] + [[op[0], op[1], 0, op[3], op[4], op[5]]] + sc["ops"][i + 1:]
            yield c


class _Abort(Exception):
    pass


class _Lane(object):
    """A long-lived caller thread: ``call(fn)`` runs fn there and waits for it (no concurrency)."""

    def __init__(self):
        import queue
        import threading
        self.q, self.r = queue.Queue(), queue.Queue()
        self.t = threading.Thread(target=self._loop)
        self.t.daemon = True
        self.t.start()

    def _loop(self):
        while True:
            fn = self.q.get()
            if fn is None:
                return
            try:
                self.r.put(("ok", fn()))
            except BaseException as e:
                self.r.put(("raise", e))

    def call(self, fn):
        self.q.put(fn)
        kind, val = self.r.get()
        if kind == "raise":
            raise val
        return val

    def close(self):
        self.q.put(None)
        self.t.join()


class _Runaway(BaseException):
    """A dispatch keeps calling listeners without end (e.g. a list mutated while it is iterated)."""


CALL_CAP = 60000  # per top-level dispatch; re-entrant fan-out of a 40-operation history stays far below


def _execute_app(sc):
    from clikit import ConsoleApplication
    from clikit.api.event import PRE_HANDLE, PRE_RESOLVE
    from clikit.args import ArgvArgs
    from clikit.config import DefaultApplicationConfig
    from ..streams import EventLog, SimInputStream, SimOutputStream

    res = Result()
    log = res.events
    config = DefaultApplicationConfig("app", "1.0")
    config.set_terminate_after_run(False)
    ran = []

    class H(object):
        def handle(self, args, io, command):
            ran.append("go")
            return 0

    class H2(object):
        def handle(self, args, io, command):
            ran.append("alt")
            return 0

    config.create_command("go").set_description("go").set_handler(H())
    config.create_command("alt").set_description("alt").set_handler(H2())
    own = bool(sc.get("own_dispatcher"))
    if own:
        from clikit.api.event import EventDispatcher
        config.set_event_dispatcher(EventDispatcher())
        res.probe("own_empty_dispatcher_installed")
    built = []
    for j, (prio, b) in enumerate(sc.get("config_listeners") or []):
        def on_config(event, event_name, dispatcher, _j=j, _b=b):
            built.append((_j, event_name, event.config is config))
            if _b == "stop":
                event.stop_propagation()
        from clikit.api.event import CONFIG
        config.add_event_listener(CONFIG, on_config, prio)
    # (a failure while the application is built is to surface here, not to be printed to the real stdout)
    config.set_catch_exceptions(False)
    try:
        app = ConsoleApplication(config)
    except Exception as e:
        res.violate("op_raised", "application_built", "building the application with %d configuration listener(s) raised %s: %s" % (
            len(sc.get("config_listeners") or []), type(e).__name__, e))
        return res
    finally:
        config.set_catch_exceptions(True)
    if sc.get("config_listeners"):
        res.probe("config_event_listeners")
        want_built = []
        for j in sorted(range(len(sc["config_listeners"])), key=lambda j: (-sc["config_listeners"][j][0], j)):
            want_built.append((j, "config", True))
            if sc["config_listeners"][j][1] == "stop":
                break
        log.append(("built", list(built)))
        if built != want_built:
            res.violate("dispatch_sequence", "application_built", "building the application called the configuration listeners %r, expected %r" % (built, want_built))
            return res
    names = [PRE_RESOLVE, PRE_HANDLE]
    # the default configuration registered one listener per event itself (priority 0, first):
    # -1 resolves the help command and stops when the line asks for help, -2 takes the command over
    # when the line asks for the version
    regs = [{"event": 0, "prio": 0, "seq": 0, "lid": -1, "b": "default"}, {"event": 1, "prio": 0, "seq": 0, "lid": -2, "b": "default"}]
    if own:
        regs = []  # no listener of the default configuration is left: "--help" / "--version" are plain options now
    seq = [0]
    calls = []
    runs = 0
    for op in sc["ops"]:
        res.steps += 1
        if op[0] == "reg":
            _, ev, prio, b = op
            lid = len(regs)
            seq[0] += 1

            def listener(event, event_name, dispatcher, _lid=lid, _b=b, _ev=ev):
                calls.append((_lid, event_name))
                if _b == "stop":
                    event.stop_propagation()
                elif _b == "act" and _ev == 1:
                    event.handled(True)
                    event.set_status_code(10 + _lid)
                elif _b == "act":
                    from clikit.api.resolver import ResolvedCommand
                    c = event.application.get_command("alt")
                    event.set_resolved_command(ResolvedCommand(c, c.parse(event.raw_args, True)))

            # listeners have names of their own, in an order that is neither their priority nor their
            # registration order (anything that lists or sorts listeners by name must not disturb dispatch)
            listener.__name__ = listener.__qualname__ = "plugin_%s" % "qdxbmzafkt"[(lid * 7) % 10]
            config.add_event_listener(names[ev], listener, prio)
            regs.append({"event": ev, "prio": prio, "seq": seq[0], "lid": lid, "b": b})
            if runs:
                res.probe("register_after_dispatch")
            log.append(("reg", ev, prio, b))
        elif op[0] == "run":
            line = op[1] if len(op) > 1 else "go"
            del calls[:]
            del ran[:]
            elog = EventLog()
            try:
                status = app.run(ArgvArgs(["prog"] + line.split()), SimInputStream(elog, []), SimOutputStream("o", elog, ansi=False), SimOutputStream("e", elog, ansi=False))
            except BaseException as e:
                res.violate("op_raised", "run", "%s: %s" % (type(e).__name__, e))
                break
            runs += 1
            want = []
            target, handled, code = "go", False, 0
            for ev in (0, 1):
                for r in sorted((r for r in regs if r["event"] == ev), key=lambda r: (-r["prio"], r["seq"])):
                    if r["lid"] >= 0:
                        want.append((r["lid"], names[ev]))
                    stops = r["b"] == "stop"
                    if r["b"] == "act" and ev == 0:
                        target = "alt"
                    elif r["b"] == "act":
                        handled, code = True, 10 + r["lid"]
                        res.probe("listener_took_over")
                    elif r["b"] == "default" and ev == 0 and "--help" in line:
                        target, stops = "help", True
                    elif r["b"] == "default" and ev == 1 and "--version" in line:
                        handled = True
                        res.probe("listener_took_over")
                    if stops:
                        if any(x["event"] == ev for x in regs if (-x["prio"], x["seq"]) > (-r["prio"], r["seq"])):
                            res.probe("stop_in_middle")
                        break
            log.append(("run", line, status, list(calls), list(ran)))
            if calls != want:
                res.violate("dispatch_sequence", "application_run", "run %r called listeners %r, expected %r" % (line, calls, want))
            want_ran = [] if handled or target == "help" else [target]
            want_status = code if handled else 0
            if ran != want_ran or status != want_status:
                res.violate("dispatch_sequence", "handler", "run %r: handler calls %r status %r, expected %r status %r (listeners called: %r)"
                            % (line, ran, status, want_ran, want_status, calls))
    res.states.add(tuple(sorted((r["event"], r["prio"], r["b"]) for r in regs)))
    res.nontrivial = runs >= 2 and len(regs) >= 4
    return res


def execute(sc):
    from clikit.api.event import Event, EventDispatcher

    if sc.get("class") == "app":
        return _execute_app(sc)
    res = Result()
    log = res.events
    d = EventDispatcher()

    class _ResultEvent(Event):
        def __init__(self):
            Event.__init__(self)
            self.result = None

        def is_propagation_stopped(self):
            return self.result is not None

    if sc.get("event_kind"):
        res.probe("event_object_of_kind_" + sc["event_kind"])

    regs = []          # model: dicts {event, prio, seq, lid}
    listeners = []     # lid -> (callable, behaviour, extra)
    calls = []         # flat log of (dispatch_id, lid)
    stack = []         # dispatch ids in progress
    counter = {"dispatch": 0, "seq": 0}
    dispatched_before = {"any": False}
    mark = {"top": 0}

    def order(rs, ev):
        return [r["lid"] for r in sorted((r for r in rs if r["event"] == ev),
                                         key=lambda r: (-r["prio"], r["seq"]))]

    def do_register(ev, prio, lid):
        d.add_listener(EVENTS[ev], listeners[lid][0], prio)
        counter["seq"] += 1
        regs.append({"event": ev, "prio": prio, "seq": counter["seq"], "lid": lid})
        if dispatched_before["any"]:
            res.probe("register_after_dispatch")
        if sum(1 for r in regs if r["lid"] == lid) > 1:
            res.probe("same_callable_twice")

    def make_listener(behaviour, extra):
        lid = len(listeners)

        def listener(event, event_name, dispatcher):
            calls.append((stack[-1] if stack else -1, lid, event_name))
            if len(calls) - mark["top"] > CALL_CAP:
                raise _Runaway()
            log.append(("call", stack[-1] if stack else -1, lid))
            if behaviour == "stop":
                if isinstance(event, _ResultEvent):
                    event.result = lid
                else:
                    event.stop_propagation()
            elif behaviour == "raise":
                res.fault("listener_raises")
                raise _Abort("listener %d" % lid)
            elif behaviour == "reg":
                res.fault("register_during_dispatch")
                new = make_listener(extra[2], None)
                do_register(extra[0], extra[1], new)
            elif behaviour == "redispatch" and len(stack) < 3:
                res.fault("reentrant_dispatch")
                do_dispatch(extra[0])

        listeners.append((listener, behaviour, extra))
        return lid

    def do_dispatch(ev):
        if not stack:
            mark["top"] = len(calls)
        counter["dispatch"] += 1
        did = counter["dispatch"]
        before = list(regs)
        stack.append(did)
        raised = None
        log.append(("dispatch", did, ev))
        try:
            if sc.get("event_kind") == "own_state":
                # an application-defined event that decides itself when it is done (a public method
                # to override): it stops once a listener has produced a result
                d.dispatch(EVENTS[ev], _ResultEvent())
            elif sc.get("event_kind") == "plain_object":
                d.dispatch(EVENTS[ev], Event())
            else:
                d.dispatch(EVENTS[ev])
        except _Abort as e:
            raised = e
        except _Runaway:
            if len(stack) > 1:
                raise
            res.violate("dispatch_sequence", "runaway", "a dispatch of %s called listeners more than %d times (each listener must be called once)" % (EVENTS[ev], CALL_CAP))
            raise
        finally:
            stack.pop()
        dispatched_before["any"] = True
        mine = [c for c in calls if c[0] == did]
        actual = [c[1] for c in mine]
        if any(c[2] != EVENTS[ev] for c in mine):
            res.violate("other_event", "dispatch", "listener called with event name %r during dispatch of %r" % ([c[2] for c in mine], EVENTS[ev]))
        e0 = order(before, ev)
        e1 = order(regs, ev)
        if ev == 2:
            res.probe("dispatch_unregistered_event")

        def cut(seq):
            out = []
            for lid in seq:
                out.append(lid)
                if listeners[lid][1] in ("stop", "raise"):
                    break
            return out

        ok = actual == cut(e0) or actual == cut(e1)
        if not ok and raised is not None and actual and listeners[actual[-1]][1] == "redispatch":
            # a re-entrant dispatch failed and the exception passed through this dispatch as well
            ok = actual == cut(e0)[:len(actual)] or actual == cut(e1)[:len(actual)]
        if not ok:
            where = "order"
            ce0 = cut(e0)
            if sorted(actual) == sorted(ce0):
                where = "order"
            elif len(actual) < len(ce0) and actual == ce0[:len(actual)]:
                where = "missing"
            elif len(actual) > len(ce0) and actual[:len(ce0)] == ce0:
                where = "after_stop" if listeners[ce0[-1]][1] in ("stop", "raise") else "extra"
            res.violate("dispatch_sequence", where,
                        "dispatch of %s called listeners %r, expected %r (registrations %r)" % (
                            EVENTS[ev], actual, ce0,
                            [(r["lid"], r["prio"]) for r in before if r["event"] == ev]))
        if len(actual) >= 2:
            pr = {r["lid"]: r["prio"] for r in before if r["event"] == ev}
            if any(pr.get(a) == pr.get(b) for a, b in zip(actual, actual[1:])):
                res.probe("equal_priority_run")
            c0 = cut(e0)
            if len(c0) < len(e0) and len(c0) >= 2:
                res.probe("stop_in_middle")
        if raised is not None and stack:
            raise raised  # propagate through the re-entrant caller like any exception
        return len(actual)

    big = [0]

    def step(op):
        k = op[0]
        if k == "reg":
            _, ev, prio, b, reuse, extra = op
            if reuse is not None and reuse < len(listeners):
                lid = reuse
            else:
                if b == "reg" and not extra:
                    b = "pass"
                if b == "redispatch" and not extra:
                    b = "pass"
                lid = make_listener(b, extra)
            do_register(ev, prio, lid)
            log.append(("reg", ev, prio, lid))
        elif k == "dispatch":
            n = do_dispatch(op[1])
            if n >= 2:
                big[0] += 1
        elif k == "q_has":
            got = d.has_listeners(EVENTS[op[1]])
            want = any(r["event"] == op[1] for r in regs)
            log.append(("has", op[1], got))
            if bool(got) != want:
                res.violate("query", "has_listeners(event)", "has_listeners(%s) = %r, model %r" % (EVENTS[op[1]], got, want))
        elif k == "q_has_any":
            got = d.has_listeners()
            log.append(("has_any", got))
            if bool(got) != bool(regs):
                res.violate("query", "has_listeners()", "has_listeners() = %r, model %r" % (got, bool(regs)))
        elif k == "q_get":
            got = d.get_listeners(EVENTS[op[1]])
            want = order(regs, op[1])
            ids = [_lid_of(listeners, f) for f in got]
            log.append(("get", op[1], ids))
            if ids != want:
                res.violate("query", "get_listeners(event)", "get_listeners(%s) = %r, model %r" % (EVENTS[op[1]], ids, want))
        elif k == "q_get_all":
            got = d.get_listeners()
            m = {EVENTS[e]: order(regs, e) for e in range(3) if any(r["event"] == e for r in regs)}
            g = {name: [_lid_of(listeners, f) for f in fs] for name, fs in got.items() if fs}
            log.append(("get_all", sorted(g.items())))
            if g != m:
                res.violate("query", "get_listeners()", "get_listeners() = %r, model %r" % (g, m))
        elif k == "q_prio":
            ev, lid = op[1], op[2]
            if lid >= len(listeners):
                return
            prios = {r["prio"] for r in regs if r["event"] == ev and r["lid"] == lid}
            if len(prios) > 1:
                return
            got = d.get_listener_priority(EVENTS[ev], listeners[lid][0])
            want = next(iter(prios)) if prios else None
            log.append(("prio", ev, lid, got))
            if got != want:
                res.violate("query", "get_listener_priority", "priority of listener %d for %s = %r, model %r" % (lid, EVENTS[ev], got, want))

    # Which thread makes the call is part of the history: with "lanes" every operation is handed to one
    # of two long-lived caller threads and runs there to completion before the next one starts - the
    # operations stay strictly sequential (the property promises nothing about concurrent calls), but
    # anything kept per thread shows.
    lanes = [_Lane(), _Lane()] if sc.get("lanes") else None
    if lanes:
        res.probe("operations_from_two_threads")
    try:
        for n_op, op in enumerate(sc["ops"]):
            res.steps += 1
            try:
                if lanes:
                    lanes[sc["lanes"][n_op % len(sc["lanes"])]].call(lambda: step(op))
                else:
                    step(op)
            except _Abort:
                pass
            except _Runaway:
                break
            except Exception as e:
                res.violate("op_raised", op[0], "%s: %s" % (type(e).__name__, e))
                break
    finally:
        for ln in lanes or ():
            ln.close()
    big = big[0]
    res.states.add(tuple(sorted((r["event"], r["prio"], listeners[r["lid"]][1]) for r in regs)))
    res.nontrivial = big >= 1 and bool(res.probes.get("register_after_dispatch")) or bool(res.faults)
    return res


def _lid_of(listeners, f):
    for i, (g, _, _) in enumerate(listeners):
        if g is f:
            return i
    return -1
