"""C19 - the automatic progress indicator is well-behaved under every interleaving.

System: real ProgressIndicator (both threads run the real _spin / advance / _display / _overwrite /
auto / finish) and Output.  Simulated: the scheduler behind ``progress_indicator.threading``
(dsim.sched: real threads, one runnable at a time, every choice seeded and recorded), the virtual
clock behind ``progress_indicator.time``, the output stream (every write is a scheduling point and
may take simulated time) and the terminal emulator on its far side.
"""
import re
import sys

from ..clock import TimeShim, VirtualClock
from ..harness import HarnessError, Result
from ..sched import Abort, NotSimulated, Scheduler, ShimThreading
from ..seed import Rng
from ..streams import EventLog, SimOutputStream
from ..term import Screen, UnknownSequence

PROP = "C19"
LEVEL = "exploration"
RUNS = {"quick": 40000, "thorough": 1500000}
OPS_KEYS = ("body", "second", "ops", "schedule")
INFO = {
    "rule": "auto class: a main-thread script inside `with indicator.auto(start, end)` (<= 8 steps of "
            "work(dt) / set_message / raise, optional second auto block) runs against the real spinner thread "
            "under a seeded scheduler (random / sticky / PCT strategies; pre-emption at every write, sleep, "
            "event, thread operation and - in the fine-grained configuration - every source line of "
            "progress_indicator.py), with seeded per-write latency and scheduling quantum under a virtual "
            "clock; manual class: start/advance/set_message/finish/tick sequences without a thread. "
            "non-trivial = at least one context switch between two runnable threads or >= 3 frames drawn; "
            "distinct = distinct event-log digests (which include the schedule)",
    "states_measure": "distinct recorded choice lists (schedules) + (class, output kind, exit kind) tuples",
    "components_real": ["clikit.ui.components.progress_indicator.ProgressIndicator (both threads)",
                        "clikit.api.io.output.Output", "clikit.formatter.AnsiFormatter", "clikit.utils.time.format_time"],
    "components_stubbed": ["threading seen by progress_indicator (dsim.sched shim: Thread/Event/Lock)",
                           "time seen by progress_indicator (virtual clock)", "OutputStream (simulated, scheduling point, latency)",
                           "terminal (emulator)"],
    "assumptions": [
        "pre-emption granularity: simulator seams and source lines of progress_indicator.py, not bytecodes",
        "an overall step cap that expires before the caller began to leave the block marks the run "
        "inconclusive (never a violation); the exit cap after that moment is the liveness bound",
        "a second auto block is only generated after a normal exit of the first",
    ],
}
EXPECTED_PROBES = ("write_during_other_threads_slow_write", "set_message_while_spinning", "exception_exit", "keyboard_interrupt_exit", "second_auto_block",
                   "exit_while_spinner_sleeps", "line_granularity", "plain_auto", "manual_throttled")

_pi = None
_last = {"choices": None, "key": None, "sets": None}


def setup():
    global _pi
    import clikit.ui.components.progress_indicator as pi
    _pi = pi


MESSAGES = ["working", "phase two", "m3", "almost there"]
VALUES = [None, None, ["a", "b"], ["⠏", "⠛", "⠹", "⢸", "⣰", "⣤", "⣆", "⡇"], ["<", "^", ">", "v"]]
WORK_US = [0, 30_000, 100_000, 250_000, 1_000_000]


def _body(w, allow_raise=True):
    steps = []
    for _ in range(w.randint(0, 8)):
        k = w.weighted([("work", 5), ("msg", 3), ("busy", 2), ("jump", 0.6), ("badwrite", 0.4)])
        if k == "badwrite":
            # the body writes something the formatter rejects, and carries on
            steps.append(["badwrite", w.pick(["<fg=lilac>oops</>", "<info>a</comment>"])])
            continue
        if k == "work":
            steps.append(["work", w.pick(WORK_US)])
        elif k == "jump":
            # clock fault: the wall clock is stepped (NTP, suspend/resume) while the spinner runs
            # small steps both ways, half a minute, and - NTP correction after a wrong date, resume
            # after suspend - more than a week forward
            steps.append(["jump", w.pick([-2_000_000, -150_000, 400_000, 30_000_000, 700_000_000_000])])
        elif k == "busy":
            # the caller computes without blocking: k scheduling points, each costing the quantum,
            # during which the spinner may wake up - both threads are runnable and the scheduler decides
            steps.append(["busy", w.pick([5, 40, 200])])
        else:
            steps.append(["msg", w.pick(MESSAGES)])
    if allow_raise and w.chance(0.3):
        steps.insert(w.randint(0, len(steps)), ["raise", w.pick(["Exception", "Exception", "KeyboardInterrupt", "SystemExit"])])
    return steps


def gen(S, tier):
    c = S("config")
    w = S("workload")
    f = S("faults")
    s = S("schedule")
    cls = c.weighted([("auto", 7), ("manual", 3)])
    sc = {"class": cls, "ansi": c.chance(0.85), "verbosity": c.weighted([(0, 5), (1, 1), (2, 1)]),
          # clikit's own StreamOutputStream over a simulated text file, or the simulated stream directly
          "real_stream": c.chance(0.3), "file_mode": c.pick(["write_through", "write_through", "buffered"]),
          "interval": c.pick([100, 100, 50, 250]), "values": c.pick(VALUES),
          "fmt": c.pick([None, None, None, " {indicator} {message}", "{message} {indicator}"])}
    if cls == "manual":
        ops = [["start", "start"]]
        for _ in range(w.randint(1, 30)):
            k = w.weighted([("advance", 6), ("tick", 5), ("msg", 2)])
            if k == "advance":
                ops.append(["advance"])
            elif k == "tick":
                ops.append(["tick", w.pick([0, 1000, 20_000, 49_000, 50_000, 99_000, 100_000, 101_000, 250_000, 3_000_000,
                                            w.pick([3_000_000, 90_000_000, 8_000_000_000, 700_000_000_000])])])
            else:
                ops.append(["msg", w.pick(MESSAGES)])
        ops.append(["finish", "end", w.chance(0.5)])
        sc.update({"ops": ops, "body": [], "second": [], "schedule": []})
        return sc
    body = _body(w)
    second = []
    if not any(x[0] == "raise" for x in body) and w.chance(0.2):
        second = _body(w) or [["work", 0]]
    lat = []
    if f.chance(0.75):
        lat = [f.pick([0, 0, 5_000, 20_000, 70_000]) for _ in range(f.randint(1, 10))]
    fine = s.chance(0.25 if tier == "quick" else 0.4)
    sc.update({
        "ops": [], "body": body, "second": second,
        "latency_us": lat, "quantum_us": f.pick([0, 50, 500, 3000, 3000]),
        "strategy": s.pick(["random", "sticky", "sticky", "pct"]),
        "preempt_p": s.pick([0.02, 0.1, 0.2, 0.5]),
        "pct_depth": s.randint(1, 3),
        "granularity": "line" if fine else "seam",
        "sched_seed": s.getrandbits(48),
        "schedule": None,
        "indent": c.pick([0, 0, 0, 2, 4]) if sc["ansi"] else 0,
    })
    if sc["real_stream"] and sc["ansi"] and sc["verbosity"] == 0 and f.chance(0.3):
        # fault: the file object under clikit's StreamOutputStream accepts only part of a write
        sc["short_write_p"] = f.pick([0.1, 0.3])
    if w.chance(0.25) and not sc.get("short_write_p"):
        tail = [["start", "start"]]
        for _ in range(w.randint(2, 12)):
            tail.append(w.pick([["advance"], ["advance"], ["tick", w.pick([0, 1000, 49_000, 99_000, 101_000, 250_000])], ["msg", w.pick(MESSAGES)]]))
        tail.append(["finish", "end", False])
        sc["manual_tail"] = tail
    x = S("extension")
    if x.chance(0.15):
        # the body announces the end itself: its last message is the text of the end message
        for st in reversed(body):
            if st[0] == "msg":
                st[1] = "end"
                break
    if not sc["real_stream"] and not sc.get("manual_tail") and x.chance(0.15):
        # fault: one write to the terminal fails (EPIPE once; nothing of it is written), whoever issues it
        sc["write_fault_at"] = x.randint(0, 14)
    return sc


def sweep(sc, tier):
    """Thorough tier, small scripts: systematic supplement to the seeded search - every schedule
    that differs from the non-pre-emptive baseline by one pre-emption, and by two pre-emptions that
    lie close together.  A schedule is a replayable choice list: baseline prefix + the other thread,
    then 'keep running the current thread'.  (The deciding step stays the seeded search.)"""
    if tier != "thorough" or sc["class"] != "auto" or len(sc["body"]) > 3 or sc["second"]:
        return []
    if sc["sched_seed"] % 40 != 0:
        return []
    out = []

    def explore(prefix, start, depth):
        base = dict(sc, schedule=list(prefix), granularity="seam")
        execute(base)
        choices, sets = list(_last["choices"] or []), list(_last["sets"] or [])
        for i in range(start, min(len(choices), start + (200 if depth == 0 else 25))):
            for alt in sets[i]:
                if alt != choices[i] and len(out) < 1500:
                    sched = choices[:i] + [alt]
                    out.append(dict(sc, schedule=sched, granularity="seam"))
                    if depth == 0:
                        explore(sched, i + 1, 1)

    explore([], 0, 0)
    return out


def simplify(sc):
    if sc["class"] == "auto":
        if sc.get("schedule") is None:
            # materialise the schedule the seeded strategy produces, so that it can be shortened
            execute(dict(sc))
            if _last["choices"] is not None and _last["key"] == _key(sc):
                yield dict(sc, schedule=list(_last["choices"]))
        sch = sc.get("schedule")
        if sch:
            # remove pre-emptions one by one: replace a switch by "continue with the previous thread"
            for i in range(1, len(sch)):
                if sch[i] != sch[i - 1]:
                    yield dict(sc, schedule=sch[:i] + [sch[i - 1]] + sch[i + 1:])
            yield dict(sc, schedule=sch[:len(sch) // 2])
        if sc.get("latency_us"):
            lat = sc["latency_us"]
            yield dict(sc, latency_us=[])
            for i in range(len(lat)):
                if lat[i]:
                    yield dict(sc, latency_us=lat[:i] + [0] + lat[i + 1:])
        for k, v in (("quantum_us", 0), ("granularity", "seam"), ("verbosity", 0), ("values", None), ("fmt", None),
                     ("interval", 100), ("real_stream", False)):
            if sc.get(k) != v:
                yield dict(sc, **{k: v})
        for key in ("body", "second"):
            for i, st in enumerate(sc[key]):
                if st[0] == "work" and st[1] not in (0, 100_000):
                    yield dict(sc, **{key: sc[key][:i] + [["work", 100_000]] + sc[key][i + 1:]})
    else:
        for k, v in (("verbosity", 0), ("values", None), ("fmt", None), ("interval", 100)):
            if sc.get(k) != v:
                yield dict(sc, **{k: v})


def _key(sc):
    return repr(sorted((k, v) for k, v in sc.items() if k not in ("schedule", "_run")))


def condition(sc, v):
    return {"class": sc["class"], "ansi": sc["ansi"]}


class _BodyError(Exception):
    pass


def execute(sc):
    res = Result()
    clock = VirtualClock()
    log = EventLog(clock)
    old_time, old_thr = _pi.time, _pi.threading
    _pi.time = TimeShim(clock)
    try:
        if sc["class"] == "manual":
            _manual(sc, res, clock, log)
        else:
            _auto(sc, res, clock, log)
    except UnknownSequence as e:
        raise HarnessError("terminal emulator: %s" % e)
    except NotSimulated as e:
        raise HarnessError(str(e))
    finally:
        _pi.time, _pi.threading = old_time, old_thr
        sys.settrace(None)
    if any("is not simulated by the scheduler" in v["detail"] for v in res.violations):
        raise HarnessError("the code under test uses a threading primitive the scheduler does not model: %s" % res.violations[0]["detail"])
    res.events = log.events
    res.sim_us = clock.us
    return res


def _mk_io(sc, log, screen, on_write=None, after_write=None):
    from clikit.api.io.output import Output
    from clikit.formatter import AnsiFormatter
    if sc.get("real_stream"):
        from ..realstream import RealStreamOutput, SimFile
        wt = sc.get("file_mode", "write_through") == "write_through"
        sw = None
        if sc.get("short_write_p"):
            srng = Rng((sc.get("sched_seed") or 0) ^ 0x5157)
            # never inside the cursor-control prefix of a frame: the device would see half a sequence
            def sw(text):
                lo = text.find("\x1b[2K")
                lo = lo + 4 if lo >= 0 else 1
                if len(text) > lo + 1 and srng.random() < sc["short_write_p"]:
                    return srng.randint(lo, len(text) - 1)
                return len(text)
        f = SimFile("err", log, screen=screen, on_write=None if wt else on_write, write_through=wt,
                    on_call=on_write, short_write=sw)
        f.after_write = after_write
        stream = RealStreamOutput(f, sc["ansi"])
    else:
        stream = SimOutputStream("err", log, ansi=sc["ansi"], screen=screen, on_write=on_write)
        stream.after_write = after_write
    out = Output(stream, AnsiFormatter())
    out.set_verbosity({0: 0, 1: 1, 2: 2}[sc["verbosity"]])
    return stream, out


def _frame_re(sc, values, messages):
    v = "|".join(re.escape(x) for x in values)
    m = "|".join(re.escape(x) for x in sorted(messages, key=len, reverse=True))
    # (beyond a week format_time has no entry and answers None: not a matter of this property)
    el = r"(?: \((?:< 1 sec|1 sec|\d+ secs?|1 min|\d+ mins?|1 hr|\d+ hrs?|1 day|\d+ days?|None) *\))?"
    fmt = sc["fmt"]
    if fmt == "{message} {indicator}":
        return re.compile("^(?:%s) (?:%s)$" % (m, v))
    if not sc["ansi"] and fmt is None:
        return re.compile("^ (?:%s)%s$" % (m, el))
    if fmt is None and sc["verbosity"] > 0:
        return re.compile("^ (?:%s) (?:%s)%s$" % (v, m, el))
    return re.compile("^ (?:%s) (?:%s)$" % (v, m))


def _auto(sc, res, clock, log):
    values = sc["values"] or ["-", "\\", "|", "/"]
    messages = set(MESSAGES) | {"start", "end", "start2", "end2"}
    frame_re = _frame_re(sc, values, messages)
    screen = Screen(120)
    rng = Rng(sc.get("sched_seed", 0))
    trace_files = ("progress_indicator.py",) if sc["granularity"] == "line" else ()
    cap = 4000 if not trace_files else 40000
    sched = Scheduler(clock, log, choices=sc.get("schedule"), rng=rng, strategy=sc["strategy"],
                      preempt_p=sc["preempt_p"], quantum_us=sc["quantum_us"], max_steps=cap,
                      trace_files=trace_files)
    if sc["strategy"] == "pct":
        sched.change_points = {rng.randrange(300) for _ in range(sc["pct_depth"])}
    _pi.threading = ShimThreading(sched)
    lat = list(sc.get("latency_us") or [])
    wstate = {"n": 0, "last_writer": None, "pending_frame": {}, "in_write": {}}

    def on_write(stream, data):
        sched.yield_point("write")
        if lat:
            us = lat[wstate["n"] % len(lat)]
            wstate["n"] += 1
            if us:
                res.fault("write_latency")
                me = sched.me().name
                wstate["in_write"][me] = True
                try:
                    sched.block_us(us, "write_latency")
                finally:
                    wstate["in_write"][me] = False

    def after_write(stream, ev):
        data = ev[5]
        actor = ev[1]
        if any(v for k, v in wstate["in_write"].items() if k != actor):
            res.probe("write_during_other_threads_slow_write")
        # who wrote between the two writes of someone else's frame?
        if data.startswith("\r\x1b[2K") and len(data) > 5:
            data = data[5:]  # erase and text in one write: nothing can come between
        if data == "\r\x1b[2K":
            wstate["pending_frame"][actor] = True
            for other, pend in wstate["pending_frame"].items():
                if other != actor and pend:
                    res.probe("spinner_between_main_frame_writes" if other == "main" else "main_between_spinner_frame_writes")
            return
        if data == "\n" or data == "":
            return
        for other, pend in wstate["pending_frame"].items():
            if other != actor and pend:
                res.probe("spinner_between_main_frame_writes" if other == "main" else "main_between_spinner_frame_writes")
        wstate["pending_frame"][actor] = False
        row = screen.row_text(screen.r - 1) if data.endswith("\n") else screen.row_text(screen.r)
        if row and sc.get("short_write_p"):
            # after a short write the line may show the beginning of ONE frame - still never a mixture
            full = [(" %s %s" % (v_, m_)) if sc["fmt"] != "{message} {indicator}" else ("%s %s" % (m_, v_)) for v_ in values for m_ in messages]
            if not any(f_.startswith(row.rstrip()) or f_.startswith(row) for f_ in full):
                res.violate("line_is_one_frame", "auto", "terminal line shows %r after %s wrote %r (short writes: only a prefix of one frame is acceptable)" % (row, actor, data))
        elif row and not frame_re.match(row):
            res.violate("line_is_one_frame", "auto", "terminal line shows %r after %s wrote %r" % (row, actor, data))

    stream, out = _mk_io(sc, log, screen, on_write, after_write)
    if sc.get("write_fault_at") is not None and hasattr(stream, "fail_at"):
        stream.fail_at = {sc["write_fault_at"]}

    def injected(e):
        return isinstance(e, IOError) and "simulated: broken pipe" in str(e) and stream.faults_fired > 0

    if sc.get("indent"):
        # the indicator runs inside an indentation scope of its output (the blanks in front of the
        # carriage return are wiped with the line: the frame itself still starts at column 0)
        out.indent(sc["indent"]).__enter__()
        res.probe("inside_indentation_scope")
    if not sc["ansi"]:
        res.probe("plain_auto")
    if trace_files:
        res.probe("line_granularity")

    kw = {}
    if sc["values"]:
        kw["values"] = list(sc["values"])
    if sc["fmt"]:
        kw["fmt"] = sc["fmt"]
    ind = _pi.ProgressIndicator(out, interval=sc["interval"], **kw)

    marks = {}
    exit_cap = 400 if not trace_files else 6000

    def run_block(body, start, end, tag):
        raised = None
        marks[tag + "_exit_started"] = None
        try:
            with ind.auto(start, end):
                for st in body:
                    if st[0] == "work":
                        sched.sleep(st[1] / 1e6)
                    elif st[0] == "busy":
                        for _ in range(st[1]):
                            sched.yield_point("busy")
                    elif st[0] == "jump":
                        clock.advance_us(st[1])
                        log.add("clock_jump", st[1])
                        res.fault("clock_jump_backward" if st[1] < 0 else "clock_jump_forward")
                        sched.yield_point("clock_jump")
                    elif st[0] == "msg":
                        res.probe("set_message_while_spinning")
                        ind.set_message(st[1])
                    elif st[0] == "badwrite":
                        res.probe("body_survives_a_rejected_write")
                        try:
                            out.write_line(st[1])
                        except ValueError:
                            pass
                    elif st[0] == "raise":
                        marks[tag + "_exit_started"] = sched.steps
                        log.add("body_raises", st[1])
                        res.fault("body_raises")
                        if st[1] == "KeyboardInterrupt":
                            res.probe("keyboard_interrupt_exit")
                            raise KeyboardInterrupt()
                        if st[1] == "SystemExit":
                            res.probe("sys_exit_in_body")   # the body calls sys.exit()
                            raise SystemExit(3)
                        res.probe("exception_exit")
                        raise _BodyError("boom")
                marks[tag + "_exit_started"] = sched.steps
                log.add("body_done")
                sp = [t for t in sched.threads.values() if t.name != "main" and t.state == "sleeping"]
                if sp:
                    res.probe("exit_while_spinner_sleeps")
        except (_BodyError, KeyboardInterrupt, SystemExit) as e:
            raised = e
        except Exception as e:  # the component's own failure: judged below (spurious / replaced)
            raised = e
        marks[tag + "_exit_done"] = sched.steps
        log.add("with_left", tag)
        return raised

    tracer = sched.tracer()
    outcome = "normal"
    try:
        if tracer is not None:
            sys.settrace(tracer)
        blocks = [("b1", sc["body"], "start", "end")]
        if sc["second"]:
            blocks.append(("b2", sc["second"], "start2", "end2"))
            res.probe("second_auto_block")
        for tag, body, start, end in blocks:
            want_raise = next((x[1] for x in body if x[0] == "raise"), None)
            n_events_before = len(log.events)
            raised = run_block(body, start, end, tag)
            exit_seq = len(log.events)
            # (1) stopped and joined
            alive = [t.name for t in sched.threads.values() if t.name != "main" and t.state != "done"]
            if alive:
                res.violate("spinner_joined", "alive_after_exit", "threads %r still alive after the with-block (%s exit)" % (alive, "exception" if want_raise else "normal"))
            if injected(raised):
                # the failed write surfaced in the caller's thread: the block may end with it (whatever the
                # body did); stopped and joined was checked above, nothing more is promised for this exit
                res.probe("write_fault_surfaced_from_the_block")
                outcome = "exception"
                break
            if want_raise and raised is None:
                res.violate("exception_propagates", "swallowed", "the body raised %s but the with-statement ended normally" % want_raise)
            elif want_raise and (((want_raise == "KeyboardInterrupt") != isinstance(raised, KeyboardInterrupt))
                                 or ((want_raise == "SystemExit") != isinstance(raised, SystemExit))
                                 or not isinstance(raised, (_BodyError, KeyboardInterrupt, SystemExit))):
                res.violate("exception_propagates", "replaced", "the body raised %s, the block raised %r" % (want_raise, raised))
            elif not want_raise and raised is not None:
                res.violate("exception_propagates", "spurious", "the block raised %r" % (raised,))
            started = marks.get(tag + "_exit_started")
            if started is not None and marks[tag + "_exit_done"] - started > exit_cap:
                res.violate("spinner_joined", "exit_cap", "leaving the block took %d scheduling steps" % (marks[tag + "_exit_done"] - started))
            # (2) last frame after a normal exit
            if not want_raise:
                rows = screen.text_rows()
                last = rows[-1] if rows else ""
                v0 = values[0]
                if sc["fmt"] == "{message} {indicator}":
                    ok = last == "%s %s" % (end, v0)
                elif not sc["ansi"] and sc["fmt"] is None:
                    ok = re.match("^ %s(?: \\(.*\\))?$" % re.escape(end), last) is not None
                elif sc["fmt"] is None and sc["verbosity"] > 0:
                    ok = re.match("^ %s %s(?: \\(.*\\))?$" % (re.escape(v0), re.escape(end)), last) is not None
                else:
                    ok = last == " %s %s" % (v0, end)
                if not ok and sc.get("short_write_p"):
                    # the stream dropped part (or all) of the final frame: not the component's doing
                    res.probe("last_frame_cut_by_short_write")
                elif not ok:
                    res.violate("last_frame", "normal_exit", "last line on screen is %r, expected the end message %r with indicator %r" % (last, end, v0))
                elif screen.c != 0 or screen.r < len(rows):
                    res.violate("last_frame", "cursor", "cursor at %r after the end message, screen has %d rows" % ((screen.r, screen.c), len(rows)))
                outcome = "normal"
            else:
                outcome = "exception"
                break
        # spinner writes after the block was left
        late = [e for e in log.events[exit_seq:] if e[3] == "write" and e[1] != "main"]
        if late:
            res.violate("spinner_joined", "writes_after_exit", "spinner wrote %r after the with-block was left" % (late[0][5],))
        if getattr(getattr(stream, "file", None), "short_writes", 0):
            res.fault("short_write", stream.file.short_writes)
        if sc.get("manual_tail") and outcome == "normal" and not res.violations:
            # the same indicator object, now driven by hand: the manual-mode clauses hold for it too
            res.probe("manual_use_after_auto")
            _manual_ops(sc, res, clock, log, ind, stream, screen, sc["manual_tail"], "manual_after_auto")
    except Abort as e:
        reason = str(e)
        began = any(marks.get(t + "_exit_started") is not None and marks.get(t + "_exit_done") is None for t in ("b1", "b2"))
        if reason == "deadlock":
            res.violate("spinner_joined", "deadlock", "no thread can run: %r" % {t.name: t.state for t in sched.threads.values()})
        elif began:
            res.violate("spinner_joined", "exit_cap", "step cap reached while leaving the block (not stopped and joined)")
        else:
            res.inconclusive = True
        outcome = "abort"
    finally:
        sys.settrace(None)
        left, stuck = sched.shutdown()
        if stuck:
            raise HarnessError("real threads did not finish: %r" % stuck)
    if getattr(stream, "faults_fired", 0):
        res.fault("terminal_write_fails_once", stream.faults_fired)
    for t in sched.threads.values():
        if t.exc is not None and injected(t.exc):
            res.probe("write_fault_hit_the_spinner_thread")  # it dies of it, as a thread does; the caller's exit still holds
        elif t.exc is not None:
            res.violate("spinner_died", type(t.exc).__name__, "thread %s died with %r" % (t.name, t.exc))
    _last["choices"] = list(sched.choices)
    _last["sets"] = [list(x) for x in sched.choice_sets]
    _last["key"] = _key(sc)
    res.steps = sched.steps
    res.probes["context_switches"] = res.probes.get("context_switches", 0) + sched.switches
    res.states.add(("auto", sc["ansi"], outcome))
    res.states.add(tuple(sched.choices[:60]))
    log.add("schedule", tuple(sched.choices))
    res.observed = {"recorded_schedule": list(sched.choices[:60]), "scheduling_points": dict(sched.points),
                    "context_switches": sched.switches, "simulated_ms": clock.us // 1000}
    res.nontrivial = len(sched.choices) >= 1


def _manual(sc, res, clock, log):
    values = sc["values"] or ["-", "\\", "|", "/"]
    screen = Screen(120)
    stream, out = _mk_io(sc, log, screen)
    kw = {}
    if sc["values"]:
        kw["values"] = list(sc["values"])
    if sc["fmt"]:
        kw["fmt"] = sc["fmt"]
    ind = _pi.ProgressIndicator(out, interval=sc["interval"], **kw)
    frames = _manual_ops(sc, res, clock, log, ind, stream, screen, sc["ops"], "manual")
    res.states.add(("manual", sc["ansi"], frames))
    res.nontrivial = frames >= 3


def _manual_ops(sc, res, clock, log, ind, stream, screen, ops, where):
    """Drives an indicator by hand (no spinner thread) and checks throttle and frames."""
    values = sc["values"] or ["-", "\\", "|", "/"]
    interval_us = sc["interval"] * 1000
    msg = None
    last_adv = None
    frames = 0
    for op in ops:
        res.steps += 1
        k = op[0]
        if k == "tick":
            clock.advance_us(op[1])
            log.add("tick", op[1])
            continue
        n0 = len(stream.writes)
        t = clock.us
        try:
            if k == "start":
                ind.start(op[1])
                msg = op[1]
            elif k == "advance":
                if msg is None:
                    continue
                ind.advance()
            elif k == "msg":
                if msg is None:
                    continue
                ind.set_message(op[1])
                msg = op[1]
            elif k == "finish":
                if msg is None:
                    continue
                ind.finish(op[1], op[2])
                msg = op[1]
        except Exception as e:
            res.violate("op_raised", k, "%s: %s" % (type(e).__name__, e))
            break
        data = "".join(d for _, d in stream.writes[n0:])
        drew = bool(data)
        if k == "advance":
            if not sc["ansi"] and drew:
                res.violate("plain_redraw", "advance", "advance redrew on a plain output: %r" % data)
            if drew:
                if last_adv is not None and t - last_adv < interval_us - 1000:
                    res.violate("throttle", where, "advance-caused redraws %d us apart, interval %d us" % (t - last_adv, interval_us))
                last_adv = t
            else:
                res.probe("manual_throttled")
        if k == "start":
            last_adv = None
        if drew:
            frames += 1
            frame_re = _frame_re(sc, values, [msg])
            row = screen.row_text(screen.r - 1) if data.endswith("\n") else screen.row_text(screen.r)
            if k == "finish":
                rows_now = screen.text_rows()
                row = rows_now[-1] if rows_now else ""
            if not frame_re.match(row):
                res.violate("frame", where, "line shows %r, current message %r, values %r" % (row, msg, values))
            if not sc["ansi"] and ("\x1b" in data or "\r" in data):
                res.violate("plain_control", "manual", "control bytes on a plain output: %r" % data)
            if k == "finish" and op[2] and sc["ansi"] and sc["fmt"] in (None, " {indicator} {message}"):
                if not row.startswith(" %s " % values[0]):
                    res.violate("frame", "finish_reset", "finish(reset_indicator=True) shows %r, first value is %r" % (row, values[0]))
    return frames
