"""C16 - a progress bar always shows a truthful, well-formed frame and ends at 100 %.

System: real ProgressBar / Output / SectionOutput / formatters; simulated: the clock behind
``progress_bar.time`` (virtual, moved only by ``tick`` operations and per-write latency), the output
stream, the terminal on its far side, COLUMNS.
"""
import os
import re

from ..clock import TimeShim, VirtualClock
from ..harness import HarnessError, Result
from ..streams import EventLog, SimOutputStream
from ..term import Screen, UnknownSequence

PROP = "C16"
LEVEL = "exploration"
RUNS = {"quick": 80000, "thorough": 3000000}
OPS_KEYS = ("ops", "pre")
INFO = {
    "rule": "seeded histories of start/advance/set_progress/display/clear/finish/set_message/tick over "
            "a virtual clock, on ANSI / plain / section / quiet outputs; a run is non-trivial when at "
            "least 3 operations reached the stream seam or a clock fault (stall across >=3 calls, "
            "jump >= 2 s, backward jump, write latency) fired; distinct = distinct event-log digests",
    "states_measure": "(output kind, max, step, format lines, throttled?) tuples seen after an operation",
    "components_real": ["clikit.ui.components.progress_bar.ProgressBar", "clikit.api.io.output.Output",
                        "clikit.api.io.section_output.SectionOutput", "clikit.formatter.*",
                        "clikit.utils.time.format_time"],
    "components_stubbed": ["time module seen by progress_bar (virtual clock)", "OutputStream (simulated)",
                           "terminal (emulator)", "COLUMNS"],
    "assumptions": [
        "progress character has at most one visible cell; bar characters are single cells",
        "start(max) may give a bar without maximum one and take it away again (a quarter of the restarts with "
        "an explicit maximum): the format is then resolved again, a format and its _nomax variant",
        "terminal wider than any frame (wrapping of frames is C15's subject)",
        "throttle distance asserted only between consecutive advance-caused redraws that did not "
        "reach the maximum, measured from the start of the first to the end of the second redraw",
    ],
}
EXPECTED_PROBES = ("advance_throttled", "max_reached_while_throttled", "forced_by_max_interval",
                   "frame_shorter_than_previous", "multiline_format", "max_grown_by_overshoot",
                   "finish_with_max_0", "styled_message", "backward_clock", "terminal_exactly_frame_wide", "quiet_section",
                   "restart_gains_or_loses_the_maximum")

_pb = None


def setup():
    global _pb
    import clikit.ui.components.progress_bar as pb
    _pb = pb


MAXES = [0, 1, 3, 10, 50, 200]
TICKS_US = [0, 10_000, 50_000, 200_000, 2_000_000, 3_600_000_000]
MESSAGES = ["", "x", "working", "a much longer message than before", "<info>ok</info>",
            "<comment>some</comment> <b>bold</b> text", "café ✓", "<fg=red;options=bold>hot</>"]
FORMATS = [None, None, None, "normal", "verbose", "very_verbose", "debug",
           " %current%/%max% [%bar%] %percent:3s%% %message%",
           "%current% [%bar%] %message%",
           "%message% %current%/%max% %percent%%",
           "%bar%\nline2 %current%",
           "%message%\n%current%/%max% [%bar%]",
           "%current%\n%message%\n[%bar%] %elapsed%"]
BAR_CHARS = [None, None, "=", "#", "█"]
EMPTY_CHARS = ["-", "-", ".", "░"]
PROGRESS_CHARS = [">", ">", "", "|", "<info>></info>", "<fg=yellow>*</>"]
SENTINEL = "SENTINEL-%d " + "s" * 25


def gen(S, tier):
    c = S("config")
    kind = c.weighted([("ansi", 5), ("plain", 3), ("section", 3), ("quiet", 1)])
    mx = c.pick(MAXES)
    cfg = {
        "kind": kind,
        "plain_formatter": c.chance(0.5), "plain_on_ansi_stream": c.chance(0.5), "late_style": c.chance(0.1),
        "verbosity": c.weighted([(0, 4), (1, 1), (2, 1), (4, 1)]),
        "max": mx,
        "min_interval": c.pick([0, 0, 0.1, 0.1, 0.5]),
        "bar_width": c.pick([None, None, 1, 2, 5, 10, 28, 40, c.randint(1, 40)]),
        "bar_char": c.pick(BAR_CHARS),
        "empty_char": c.pick(EMPTY_CHARS),
        "progress_char": c.pick(PROGRESS_CHARS),
        "redraw_freq": c.pick([None, None, 1, 2, 5, 0]),
        "max_interval": c.pick([None, None, None, 0.3, 5]),
        "min_interval_setter": c.pick([None, None, None, 0.05, 0.2]),
        "format": c.pick(FORMATS),
        "sentinels": c.randint(0, 3),
        "sections_above": c.randint(0, 1),
        "sections_below": c.randint(0, 2),
        "skew": c.chance(0.12),
        # section outputs count screen rows: sometimes the terminal is exactly as wide as the frame
        "exact_columns": c.chance(0.3),
        "real_stream": c.chance(0.25), "indent": c.pick([0, 0, 0, 0, 2, 4]),
        "term_env": c.weighted([(None, 6), ({"tty_fds": [2], "ctty": False}, 2), ({"tty_fds": [0, 1, 2], "ctty": True}, 1),
                                ({"tty_fds": [], "ctty": True}, 1), ({"tty_fds": [1], "ctty": False}, 1)]),
    }
    f = S("faults")
    lat = []
    if f.chance(0.25):
        lat = [f.pick([0, 0, 0, 1000, 5000, 30000, 120000]) for _ in range(f.randint(1, 12))]
    w = S("workload")
    n = w.randint(1, 60 if tier == "thorough" else 40)
    ops = []
    pre = []
    if w.chance(0.5):
        pre.append(["msg", w.pick(MESSAGES)])
    # workload mix varies per run (swarm)
    wt = {
        "advance": w.pick([2, 6, 12]), "set": w.pick([0, 1, 3]), "display": w.pick([0, 1, 2]),
        "clear": w.pick([0, 0, 1]), "finish": w.pick([0, 1]), "msg": w.pick([0, 1, 2]),
        "tick": w.pick([1, 4, 8]), "start": w.pick([0, 1]),
    }
    if w.chance(0.85):
        ops.append(["start", None if w.chance(0.7) else _same_class_max(w, mx)])
    for _ in range(n):
        k = w.weighted(list(wt.items()))
        if k == "advance":
            ops.append(["advance", w.weighted([(1, 8), (2, 2), (5, 1), (-1, 1), (0, 1), (37, 1)])])
        elif k == "set":
            ops.append(["set", w.pick([0, 1, 2, mx, mx - 1, mx + 1, mx // 2, -3, 2 * mx + 7, w.randint(0, max(mx, 5))])])
        elif k == "start":
            ops.append(["start", None if w.chance(0.5) else _same_class_max(w, mx)])
        elif k == "msg":
            ops.append(["msg", w.pick(MESSAGES)])
        elif k == "tick":
            us = w.pick(TICKS_US[:5]) if w.chance(0.93) else TICKS_US[5]
            if cfg["skew"] and w.chance(0.3):
                us = -w.pick([50_000, 2_000_000])
            ops.append(["tick", us])
        else:
            ops.append([k])
    if w.chance(0.7):
        ops.append(["finish"])
    return {"config": cfg, "pre": pre, "ops": ops, "faults": {"write_latency_us": lat}}


def _same_class_max(w, mx):
    if w.chance(0.25):
        # the bar is started again with any maximum: one that had none gets one, and the other way round
        return w.pick(MAXES)
    if mx == 0:
        return 0
    return w.pick([m for m in MAXES if m > 0])


def simplify(sc):
    cfg = sc["config"]
    simple = {"verbosity": 0, "bar_width": None, "bar_char": None, "empty_char": "-",
              "progress_char": ">", "redraw_freq": None, "max_interval": None,
              "min_interval_setter": None, "sentinels": 0, "sections_above": 0,
              "sections_below": 0, "skew": False, "plain_formatter": False, "plain_on_ansi_stream": False, "late_style": False, "min_interval": 0, "real_stream": False, "term_env": None, "indent": 0}
    for k, v in simple.items():
        if cfg.get(k) != v:
            c = dict(sc)
            c["config"] = dict(cfg)
            c["config"][k] = v
            yield c
    if sc["faults"].get("write_latency_us"):
        c = dict(sc)
        c["faults"] = {"write_latency_us": []}
        yield c
    for m in (1, 3, 10):
        if cfg["max"] > m:
            c = dict(sc)
            c["config"] = dict(cfg, max=m)
            yield c
    for i, op in enumerate(sc["ops"]):
        if op[0] == "tick" and op[1] not in (0, 100_000):
            for v in (0, 100_000):
                c = dict(sc)
                c["ops"] = sc["ops"][:i] + [["tick", v]] + sc["ops"][i + 1:]
                yield c
        if op[0] == "msg" and op[1] not in ("", "x"):
            c = dict(sc)
            c["ops"] = sc["ops"][:i] + [["msg", "x"]] + sc["ops"][i + 1:]
            yield c
        if op[0] == "advance" and op[1] != 1:
            c = dict(sc)
            c["ops"] = sc["ops"][:i] + [["advance", 1]] + sc["ops"][i + 1:]
            yield c


def condition(sc, v):
    cfg = sc["config"]
    fmt = cfg["format"] or ""
    return {"kind": cfg["kind"], "multiline": "\n" in fmt, "max_zero": cfg["max"] == 0}


# --------------------------------------------------------------------------------------------
_PLACEHOLDER = re.compile(r"(?i)%([a-z\-_]+)(?::([^%]+))?%")


def _visible(fmtr, s):
    return fmtr.remove_format(s)


class _FrameGrammar(object):
    """Regular expression for one rendered frame, derived from the active format."""

    def __init__(self, fmt, bar_chars, message_visible, have_message):
        self.line_res = []
        for line in fmt.split("\n"):
            pos, rx = 0, ""
            for m in _PLACEHOLDER.finditer(line):
                rx += re.escape(line[pos:m.start()])
                name = m.group(1)
                pos = m.end()
                if name == "current":
                    rx += r"(?P<current> *\d+)"
                elif name == "max":
                    rx += r"(?P<max>\d+)"
                elif name == "bar":
                    rx += "(?P<bar>[%s]*)" % "".join(re.escape(c) for c in sorted(bar_chars))
                elif name == "percent":
                    rx += r"(?P<percent> *\d+)"
                elif name in ("elapsed", "estimated", "remaining"):
                    rx += r"(?: *[-<0-9a-zA-Z ]+?)"
                elif name == "message" and have_message:
                    rx += re.escape(message_visible)
                else:
                    rx += re.escape(m.group(0))
            rx += re.escape(line[pos:])
            # trailing blanks are padding: compare right-stripped
            rx = re.sub(r"(\\ )+$", "", rx)
            self.line_res.append(re.compile("^" + rx + r" *$", re.S))

    def parse(self, lines):
        if len(lines) != len(self.line_res):
            return None
        out = {}
        for rx, line in zip(self.line_res, lines):
            m = rx.match(line)
            if m is None:
                return None
            out.update({k: v for k, v in m.groupdict().items() if v is not None})
        return out


def execute(sc):
    cfg = sc["config"]
    res = Result()
    clock = VirtualClock()
    log = EventLog(clock)
    old_time = _pb.time
    old_cols = os.environ.get("COLUMNS")
    _pb.time = TimeShim(clock)
    columns = 200
    if cfg["kind"] == "section" and cfg.get("exact_columns") and cfg["max"] > 0 and cfg["format"] is None \
            and cfg["verbosity"] == 0 and cfg["bar_width"] is None:
        columns = 38 + 2 * len(str(cfg["max"]))  # length of the default frame
    from ..simenv import terminal_env
    env = {"columns": columns}
    if cfg.get("term_env"):
        # the width is not in COLUMNS: the (simulated) kernel reports it for the terminal descriptors
        env = dict(cfg["term_env"], cols=columns)
        res.probe("width_from_window_size")
    try:
        with terminal_env(env):
            _run(sc, cfg, res, clock, log, columns)
    except UnknownSequence as e:
        raise HarnessError("terminal emulator: %s" % e)
    finally:
        _pb.time = old_time
    res.events = log.events
    res.sim_us = clock.us
    return res


def _run(sc, cfg, res, clock, log, columns=200):
    from clikit.api.io.output import Output
    from ..term import wrap_rows
    from clikit.formatter import AnsiFormatter, PlainFormatter

    kind = cfg["kind"]
    ansi = kind in ("ansi", "section", "quiet")
    if kind == "quiet":
        ansi = True
    sentinels = [SENTINEL % i for i in range(cfg["sentinels"])]
    screen = Screen(columns, sentinels)
    if columns != 200:
        res.probe("terminal_exactly_frame_wide")
    lat = list(sc["faults"].get("write_latency_us") or [])
    state = {"n": 0}

    def on_write(stream, data):
        if lat:
            us = lat[state["n"] % len(lat)]
            state["n"] += 1
            if us:
                clock.advance_us(us)
                res.fault("write_latency")

    # what `--no-ansi` builds on a terminal: a stream that could do ANSI behind a formatter that vetoes it
    stream_ansi = ansi or bool(not ansi and cfg["plain_formatter"] and cfg.get("plain_on_ansi_stream"))
    if stream_ansi and not ansi:
        res.probe("plain_formatter_on_ansi_capable_stream")
    if cfg.get("real_stream"):
        from ..realstream import RealStreamOutput, SimFile
        stream = RealStreamOutput(SimFile("err", log, screen=screen, on_write=on_write), stream_ansi)
        res.probe("real_stream_output")
    else:
        stream = SimOutputStream("err", log, ansi=stream_ansi, screen=screen, on_write=on_write)
    if not ansi and cfg["plain_formatter"]:
        fmtr = PlainFormatter()
    else:
        fmtr = AnsiFormatter()
    out = Output(stream, fmtr)
    out.set_verbosity(cfg["verbosity"])
    if kind == "quiet":
        out.set_quiet(True)

    above, below = [], []
    target = out
    if kind == "section":
        for i in range(cfg["sections_above"]):
            s = out.section()
            s.write_line("above-%d" % i)
            above.append(s)
        target = out.section()
        for i in range(cfg["sections_below"]):
            s = out.section()
            s.write_line("below-%d" % i)
            if i == 1:
                s.write_line("below-%d second line" % i)
            below.append(s)

    if cfg.get("indent") and kind in ("ansi", "plain") and "\n" not in (cfg["format"] or ""):
        # the bar is driven inside an indentation scope of its output (`with io.indent(n): ...`)
        out.indent(cfg["indent"]).__enter__()
        screen.view_indent = cfg["indent"]
        res.probe("inside_indentation_scope")
    if kind == "quiet" and cfg.get("exact_columns"):
        # a quiet *section* output (quiet mode is inherited from the parent output)
        target = out.section()
        res.probe("quiet_section")
    bar = _pb.ProgressBar(target, cfg["max"], cfg["min_interval"])
    if cfg["bar_width"] is not None:
        bar.set_bar_width(cfg["bar_width"])
    if cfg["bar_char"] is not None:
        bar.set_bar_character(cfg["bar_char"])
    bar.set_empty_bar_character(cfg["empty_char"])
    if cfg.get("late_style"):
        # a style registered on the formatter AFTER the output was built, used by the bar's own text
        from clikit.api.formatter import Style
        out.formatter.add_style(Style("late").fg("cyan").bold())
        cfg = dict(cfg, progress_char="<late>></late>")
        res.probe("style_added_after_construction")
    bar.set_progress_character(cfg["progress_char"])
    if cfg["redraw_freq"] is not None:
        bar.set_redraw_frequency(cfg["redraw_freq"])
    if cfg["max_interval"] is not None:
        bar.max_seconds_between_redraws(cfg["max_interval"])
    if cfg["min_interval_setter"] is not None:
        bar.min_seconds_between_redraws(cfg["min_interval_setter"])
    if cfg["format"] is not None:
        bar.set_format(cfg["format"])
    min_interval = cfg["min_interval_setter"] if cfg["min_interval_setter"] else cfg["min_interval"]
    min_us = int(round(min_interval * 1e6))

    width = bar.get_bar_width()
    vis = lambda s: fmtr.remove_format(s) if s else (s or "")
    bar_chars = set()
    for ch in (bar.get_bar_character(), "=", cfg["empty_char"], vis(cfg["progress_char"])):
        bar_chars.update(ch or "")
    if cfg["bar_char"]:
        bar_chars.update(cfg["bar_char"])

    # ---- model -----------------------------------------------------------------------------
    M = {"message": None, "format": None, "base": len(sentinels), "first_frame": True,
         "last_adv_redraw_start": None, "last_frame": None, "prev_frame_len": 0,
         "stalled_calls": 0, "monotone": True, "finished": False}

    def active_format(max_now):
        """Resolved once, at the first display/clear, like the component documents."""
        if M["format"] is None:
            name = cfg["format"]
            if name is None:
                # the verbosity that counts is the one of the output the bar writes to (a section
                # output is a fresh output object), read through the public property
                name = {0: "normal", 1: "verbose", 2: "very_verbose", 4: "debug"}[target.verbosity]
            fm = _pb.ProgressBar.formats
            if not max_now and name + "_nomax" in fm:
                M["format"] = fm[name + "_nomax"]
            elif name in fm:
                M["format"] = fm[name]
            else:
                M["format"] = name
        return M["format"]

    seam_ops = 0
    for op in list(sc["pre"]) + list(sc["ops"]):
        name = op[0]
        res.steps += 1
        if name == "tick":
            us = int(op[1])
            if us < 0:
                if not cfg["skew"]:
                    continue
                M["monotone"] = False
                res.fault("clock_backward")
                res.probe("backward_clock")
            elif us == 0:
                M["stalled_calls"] += 1
            elif us >= 2_000_000:
                res.fault("clock_jump")
            clock.advance_us(us)
            log.add("tick", us)
            continue
        if name == "msg":
            bar.set_message(op[1])
            M["message"] = op[1]
            if "<" in op[1]:
                res.probe("styled_message")
            log.add("msg", op[1])
            continue

        n_before = len(stream.writes)
        t_start = clock.us
        step_before, max_before = bar.get_progress(), bar.get_max_steps()
        log.add("call", name, op[1] if len(op) > 1 else None)
        try:
            if name == "start":
                if op[1] is None:
                    bar.start()
                else:
                    if bool(op[1]) != bool(max_before):
                        res.probe("restart_gains_or_loses_the_maximum")
                    bar.start(op[1])
                    M["setup_max"] = max(0, op[1])
                    M["format"] = None  # a format and its no-maximum variant: resolved again for the new maximum
            elif name == "advance":
                bar.advance(op[1])
            elif name == "set":
                bar.set_progress(op[1])
            elif name == "display":
                bar.display()
            elif name == "clear":
                bar.clear()
            elif name == "finish":
                bar.finish()
            else:
                continue
        except Exception as e:  # an operation of the public API failed outright
            res.violate("op_raised", name, "%s: %s" % (type(e).__name__, e))
            log.add("raised", type(e).__name__)
            break
        t_end = clock.us
        step, mx = bar.get_progress(), bar.get_max_steps()
        written = stream.writes[n_before:]
        data = "".join(d for _, d in written)
        if written:
            seam_ops += 1

        # ---- progress arithmetic seen through the public getters --------------------------
        if mx and not (0 <= step <= mx):
            res.violate("step_range", name, "step %r outside 0..%r" % (step, mx))
        if step < 0:
            res.violate("step_range", name, "negative step %r" % step)
        if name == "set" or name == "advance":
            want = op[1] if name == "set" else step_before + op[1]
            if want < 0:
                if step != 0:
                    res.violate("step_truth", name, "negative progress gave step %r" % step)
            elif not max_before or want <= max_before:
                if step != want:
                    res.violate("step_truth", name, "asked for %r, step is %r" % (want, step))
            else:
                res.probe("max_grown_by_overshoot")
                if step not in (want, max_before):
                    res.violate("step_truth", name, "overshoot to %r gave step %r (max %r)" % (want, step, mx))
        if name == "finish":
            if step != mx:
                res.violate("finish_at_max", "getters", "after finish step=%r max=%r" % (step, mx))
            if max_before == 0:
                res.probe("finish_with_max_0")

        # ---- quiet -------------------------------------------------------------------------
        if kind == "quiet":
            if data:
                res.violate("quiet_bytes", name, "quiet output received %r" % data[:60])
            continue

        is_clear = name == "clear"
        frame_lines = None
        if written:
            fmt = active_format(mx)
            nlines = fmt.count("\n") + 1
            if nlines > 1:
                res.probe("multiline_format")
            if kind == "section":
                content = target.content
                body = content[:-1] if content.endswith("\n") else content
                frame_lines = [vis(x).rstrip() for x in body.split("\n")]
            else:
                iso = Screen(200)
                iso.view_indent = screen.view_indent
                iso.feed(data)
                frame_lines = [r.rstrip() for r in iso.text_rows()]
                if kind == "plain" and len(frame_lines) == nlines + 1 and frame_lines[0] == "":
                    # the separating newline precedes the frame
                    frame_lines.pop(0)
                while len(frame_lines) < nlines:
                    frame_lines.append("")

            # ---- (e) plain: no control codes ------------------------------------------------
            if kind == "plain":
                if "\x1b" in data or "\r" in data:
                    res.violate("plain_control", name, "control bytes on plain output: %r" % data[:80])

            # ---- (a) grammar ----------------------------------------------------------------
            if not is_clear:
                g = _FrameGrammar(fmt, bar_chars, vis(M["message"]) if M["message"] is not None else "",
                                  M["message"] is not None)
                f = g.parse(frame_lines)
                if f is None:
                    res.violate("frame_grammar", "ansi" if kind == "ansi" else kind,
                                "frame %r does not match format %r" % (frame_lines, fmt))
                    M["last_frame"] = {"f": {}, "step_at": step, "max_at": mx, "call": name}
                else:
                    if "bar" in f and len(f["bar"]) != width:
                        res.violate("bar_width", kind, "bar %r has %d cells, configured %d" % (f["bar"], len(f["bar"]), width))
                    if "current" in f and int(f["current"]) != step:
                        res.violate("frame_current", kind, "frame shows %s, progress is %r" % (f["current"].strip(), step))
                    if "max" in f and int(f["max"]) != mx:
                        res.violate("frame_max", kind, "frame shows max %s, maximum is %r" % (f["max"], mx))
                    if "percent" in f and mx:
                        want_pc = (100 * step) // mx
                        if int(f["percent"]) != want_pc:
                            res.violate("frame_percent", kind, "frame shows %s%% for %r/%r (exact floor %d)" % (f["percent"].strip(), step, mx, want_pc))
                    M["last_frame"] = {"f": f, "step_at": step, "max_at": mx, "call": name, "lines": list(frame_lines)}
                cur_len = max(len(x) for x in frame_lines) if frame_lines else 0
                if cur_len < M["prev_frame_len"]:
                    res.probe("frame_shorter_than_previous")
                M["prev_frame_len"] = cur_len

            # ---- (d)/(g)/(e) what the terminal shows ----------------------------------------
            rows = screen.text_rows()
            if kind == "ansi":
                base = M["base"]
                if M["first_frame"]:
                    M["first_frame"] = False
                    # where did the frame actually land?
                    actual = screen.r - (nlines - 1)
                    if actual != base or screen.clamped_up:
                        res.violate("frame_position", "first_frame",
                                    "first frame drawn at row %d, cursor was on row %d (format has %d lines)" % (actual, base, nlines))
                        M["base"] = base = max(0, actual)
                        # keep checking the rest of the run as if the frame had landed on blank
                        # rows: what it overwrote is already reported, not "residue"
                        for i in range(nlines):
                            if base + i < len(screen.rows):
                                screen.rows[base + i] = []
                        screen.r, screen.c, screen.pending = base, 0, False
                        screen.feed("\n".join(frame_lines))
                        del sentinels[base:]
                        rows = screen.text_rows()
                got = [screen.row_text(base + i) for i in range(nlines)]
                if got != frame_lines[:nlines] or len(frame_lines) > nlines:
                    res.violate("residue", "ansi", "screen rows %r, latest frame %r" % (got, frame_lines))
                above_ok = rows[:min(base, len(sentinels))] == sentinels[:min(base, len(sentinels))]
                if not above_ok and not any(v["oracle"] == "frame_position" for v in res.violations):
                    res.violate("neighbours", "ansi", "earlier output damaged: %r" % rows[:len(sentinels)])
                if len(rows) > base + nlines:
                    res.violate("residue", "ansi_below", "rows below the bar: %r" % rows[base + nlines:])
            elif kind == "plain":
                tail = rows[-len(frame_lines):] if frame_lines else []
                # cursor sits at the end of the frame's last line
                if [x for x in tail] != frame_lines:
                    res.violate("own_line", "plain", "last rows %r, frame %r" % (tail, frame_lines))
            elif kind == "section":
                expect = list(sentinels)
                for s in above + [target] + below:
                    c = s.content
                    body = c[:-1] if c.endswith("\n") else c
                    if c:
                        for x in body.split("\n"):
                            expect.extend(r.rstrip() for r in wrap_rows(vis(x), columns))
                while expect and expect[-1] == "":
                    expect.pop()
                if rows != expect:
                    res.violate("residue", "section", "screen %r, sections %r" % (rows[-6:], expect[-6:]))
                for i, s in enumerate(above):
                    if not s.content.startswith("above-%d" % i):
                        res.violate("neighbours", "section", "section above changed")
                if len(frame_lines) != nlines:
                    res.violate("residue", "section_content", "section holds %r, format has %d lines" % (frame_lines, nlines))

        # ---- (b) throttle / (c) always draw at max -----------------------------------------
        drew = bool(written) and not is_clear
        if name in ("advance", "set"):
            # "reaching the maximum always draws" is demanded for a known maximum only; a redraw at
            # step == max (also 0 == 0 on a bar without maximum) is exempt from the throttle.
            reached = step == mx
            if reached and mx > 0:
                if not drew:
                    res.violate("max_always_draws", name, "step reached max %r without a frame" % mx)
                elif M["last_frame"] and M["last_frame"]["f"].get("percent") is not None and int(M["last_frame"]["f"]["percent"]) != 100:
                    res.violate("max_always_draws", "percent", "frame at max shows %s%%" % M["last_frame"]["f"]["percent"])
                if min_us and M["last_adv_redraw_start"] is not None and t_start - M["last_adv_redraw_start"] < min_us:
                    res.probe("max_reached_while_throttled")
            elif drew and not reached:
                prev = M["last_adv_redraw_start"]
                if prev is not None and M["monotone"] and min_us and t_end - prev < min_us:
                    res.violate("throttle", name, "advance-caused redraws %d us apart, minimum %d us" % (t_end - prev, min_us))
                if prev is not None and cfg["max_interval"] and t_start - prev >= cfg["max_interval"] * 1e6:
                    res.probe("forced_by_max_interval")
            elif not drew:
                if min_us:
                    res.probe("advance_throttled")
            if drew:
                M["last_adv_redraw_start"] = t_start if not reached else None
        if name == "start":
            M["last_adv_redraw_start"] = None  # a restart may legitimately reset the throttle
        if name == "finish":
            lf = M["last_frame"]
            if lf is None:
                # a bar without maximum and without progress has nothing to show
                if max_before or step:
                    res.violate("finish_draws", kind, "finish left no frame at all")
            else:
                f = lf["f"]
                if "current" in f and int(f["current"]) != mx:
                    res.violate("finish_draws", kind, "last frame after finish shows %s, maximum is %r" % (f["current"].strip(), mx))
                # "at 100 %" presupposes a maximum known when the bar was set up or last started
                if kind == "ansi" and "lines" in lf and not M["first_frame"]:
                    nl_ = len(lf["lines"])
                    shown = [screen.row_text(M["base"] + i) for i in range(nl_)]
                    if shown != lf["lines"]:
                        res.violate("finish_draws", "screen", "after finish the terminal shows %r, the final frame is %r" % (shown, lf["lines"]))
                if "percent" in f and M.get("setup_max", cfg["max"]) and int(f["percent"]) != 100:
                    res.violate("finish_draws", "percent", "last frame after finish shows %s%%" % f["percent"].strip())
        res.states.add((kind, mx, step, (M["format"] or "").count("\n"), bool(min_us and not drew)))

    res.nontrivial = seam_ops >= 3 or bool(res.faults) or M["stalled_calls"] >= 3
    if M["stalled_calls"] >= 3:
        res.fault("clock_stall")
