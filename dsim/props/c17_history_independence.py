"""C17 - what is rendered does not depend on what was processed before.

System: everything of a run (as C04), help handler and HelpResolver, Table, TableStyle/BorderStyle
factories, help pages, ExceptionTrace, layout classes.  Simulated: handler actors, streams.
Reference: a **pristine process** (dsim.zygote): a child forked from a process that has executed no
scenario builds the same object from the same spec and performs only the one operation.

Three run classes: application reuse (failed and help runs are the faults between good ones),
repeat rendering, style aliasing.
"""
import os

from .. import apptree, srcgen, zygote
from ..harness import Result
from ..seed import digest
from ..streams import EventLog, SimInputStream, SimOutputStream

PROP = "C17"
LEVEL = "exploration"
RUNS = {"quick": 3000, "thorough": 80000}
OPS_KEYS = ("lines", "ops", "renders")
INFO = {
    "rule": "class app: one application object (commands with lenient parsing enabled, default/anonymous "
            "sub-commands, shared args parser) processes a seeded history of 2-8 command lines (valid, unknown "
            "option, surplus/missing arguments, unknown command, help in four spellings, version, raising "
            "handler, switches); every run is compared with a fresh application built in a pristine forked "
            "process.  class repeat: components rendered twice in the worker and once in the pristine process. "
            "class style: histories of table-style constructions and customisations interleaved with renders, "
            "each render compared with a table whose style was built and customised in isolation in the "
            "pristine process.  non-trivial = a failing or help run precedes a later run / >= 2 styles alive / "
            ">= 2 renders; distinct = distinct event-log digests",
    "states_measure": "(class, kinds of lines or styles so far) tuples",
    "components_real": ["clikit.ConsoleApplication (whole run path)", "clikit.resolver.HelpResolver", "clikit.handler.help.HelpTextHandler",
                        "clikit.ui.components.Table/CellWrapper/BorderUtil", "clikit.ui.style.TableStyle/BorderStyle",
                        "clikit.ui.help.ApplicationHelp/CommandHelp", "clikit.ui.components.ExceptionTrace/Paragraph/LabeledParagraph/NameVersion",
                        "clikit.ui.layout.BlockLayout"],
    "components_stubbed": ["command handlers (scripted actors)", "streams (simulated)", "reference = same real code in a pristine forked process"],
    "assumptions": ["fork isolation of the reference process", "tracebacks are compared verbatim: both sides call through the same helper"],
}
EXPECTED_PROBES = ("after_help_run", "after_failed_run", "help_of_unparsable_default_sub", "lenient_command",
                   "shared_parser", "style_pair_from_same_factory", "style_customised_after_sibling",
                   "repeat_table", "repeat_help", "repeat_trace", "same_raw_args_object_again",
                   "help_addressed_by_alias")


def setup():
    zygote.ensure()


# ---- shared helpers: both the worker and the pristine child call exactly these -------------------
def _env(cfg):
    os.environ["COLUMNS"], os.environ["LINES"] = str(cfg.get("width", 100)), "40"


def run_line(app, inv, tokens, cfg, raw=None):
    from clikit.args import ArgvArgs
    _env(cfg)
    log = EventLog()
    out = SimOutputStream("out", log, ansi=cfg["ansi"])
    err = SimOutputStream("err", log, ansi=cfg["ansi"])
    n0 = len(inv)
    if raw is None:
        raw = ArgvArgs(["prog"] + list(tokens))
    try:
        status = app.run(raw, SimInputStream(log, []), out, err)
        outcome = ("status", status)
    except BaseException as e:
        outcome = ("raised", type(e).__name__, str(e)[:200])
    calls = [(r["hid"], sorted(r["arguments"].items()), sorted((k, repr(v)) for k, v in r["options"].items())) for r in inv[n0:]]
    return (outcome, out.data(), err.data(), calls)


def _kinds(spec):
    """hid -> how the handler is attached (JSON keys are strings)."""
    return {int(k): v for k, v in (spec.get("handler_kinds") or {}).items()}


def ref_run_line(spec, scripts, tokens, cfg):
    inv = []
    app = apptree.build_app(spec, scripts, inv, handler_kinds=_kinds(spec))
    return run_line(app, inv, tokens, cfg)


def _mk_io(cfg):
    from clikit.api.io import IO, Input, Output
    from clikit.formatter import AnsiFormatter, PlainFormatter
    from clikit.ui.rectangle import Rectangle
    log = EventLog()
    out = SimOutputStream("out", log, ansi=cfg["ansi"])
    err = SimOutputStream("err", log, ansi=cfg["ansi"])
    fm = AnsiFormatter() if cfg["ansi"] else PlainFormatter()
    io = IO(Input(SimInputStream(log, [])), Output(out, fm), Output(err, fm))
    io.set_terminal_dimensions(Rectangle(cfg.get("width", 100), 40))
    io.set_verbosity(cfg.get("verbosity", 0))
    return io, out, err


def _make_style(name):
    from clikit.ui.style import TableStyle
    return getattr(TableStyle, name)()


def _customise(style, what, value):
    from clikit.api.formatter import Style
    if what == "hc":
        style.border_style.line_hc_char = value
    elif what == "vc":
        style.border_style.line_vc_char = value
    elif what == "crossing":
        style.border_style.crossing_c_char = value
    elif what == "corner":
        style.border_style.corner_tl_char = value
    elif what == "cell_format":
        style.cell_format = value
    elif what == "header_format":
        style.header_cell_format = value
    elif what == "align":
        style.set_column_alignment(value[0], value[1])
    elif what == "padding":
        style.padding_char = value
    elif what == "border_colour":
        style.border_style.style = Style().fg(value)
    elif what in ("cell_style", "header_style", "border_recolour"):
        # value = [colour, bold, in_place]: in place edits the Style object the table style already
        # holds (what `style.cell_style.fg("blue").bold()` does), otherwise a new object replaces it
        holder, attr = {"cell_style": (style, "cell_style"), "header_style": (style, "header_cell_style"),
                        "border_recolour": (style.border_style, "style")}[what]
        cur = getattr(holder, attr)
        if cur is None or not value[2]:
            cur = Style()
            setattr(holder, attr, cur)
        cur.fg(value[0])
        cur.bold(bool(value[1]))


def _table(style, rows, header):
    from clikit.ui.components import Table
    t = Table(style)
    if header:
        t.set_header_row(list(header))
    for r in rows:
        t.add_row(list(r))
    return t


def render_table(style, rows, header, cfg):
    io, out, err = _mk_io(cfg)
    try:
        _table(style, rows, header).render(io)
    except Exception as e:  # whether a table fits is C14's subject; the outcome is still compared
        return "RAISED %s: %s" % (type(e).__name__, e)
    return out.data() + err.data()


def ref_style_render(ops_for_style, rows, header, cfg):
    """Builds ONE style in isolation (its construction and its own customisations) and renders."""
    style = None
    for op in ops_for_style:
        if op[0] == "make":
            style = _make_style(op[2]) if op[2] != "default" else None
        elif op[0] == "customise":
            _customise(style, op[2], op[3])
    return render_table(style, rows, header, cfg)


def render_component(spec, cfg, times=1):
    """``times`` renderings of ONE component object described by ``spec``, each on a fresh IO."""
    _env(cfg)
    kind = spec[0]
    cleanup = None
    if kind == "table":
        style = _make_style(spec[1]) if spec[1] != "default" else None
        table = _table(style, spec[2], spec[3])
        draw = lambda io: table.render(io, spec[4])
    elif kind in ("app_help", "cmd_help", "name_version"):
        from clikit.ui.components import NameVersion
        from clikit.ui.help import ApplicationHelp, CommandHelp
        app = apptree.build_app(spec[1], {}, [])
        if kind == "app_help":
            comp = ApplicationHelp(app)
        elif kind == "name_version":
            comp = NameVersion(app.config)
        else:
            cmd = app.get_command(spec[2][0])
            for n in spec[2][1:]:
                cmd = cmd.get_sub_command(n)
            comp = CommandHelp(cmd)
        draw = comp.render
    elif kind == "paragraph":
        from clikit.ui.components import Paragraph
        comp = Paragraph(spec[1])
        draw = lambda io: comp.render(io, spec[2])
    elif kind == "labeled":
        from clikit.ui.components import LabeledParagraph
        comp = LabeledParagraph(spec[1], spec[2])
        draw = lambda io: comp.render(io, spec[3])
    elif kind == "trace":
        from clikit.ui.components.exception_trace import ExceptionTrace
        exc = srcgen.make_exception(spec[1])
        try:
            _raise_deep(exc, spec[2])
        except BaseException as e:
            trace = ExceptionTrace(e)
        draw = trace.render
    elif kind == "trace_sim":
        # two variants: same function names and line numbers, different file and different text
        import crashtest.frame as frame_mod
        from clikit.ui.components.exception_trace import ExceptionTrace
        from ..simfs import PREFIX, Store
        variant, depth = spec[1], spec[2]
        src = "".join("# %s filler %d\n" % (variant, i) for i in range(3))
        src += "def f0(exc, n):\n    if n > 0:\n        return f0(exc, n - 1)\n    note = '%s'  # variant text\n    return f1(exc)\n\n" % variant
        src += "def f1(exc):\n    marker = '%s-inner'\n    raise exc\n" % variant
        store = Store()
        old_open = getattr(frame_mod, "open", None)
        frame_mod.open = store.open
        g = store.run_module(PREFIX + "c17/mod_%s.py" % variant, src)

        def cleanup():
            if old_open is None:
                del frame_mod.open
            else:
                frame_mod.open = old_open
            store.cleanup()
        exc = srcgen.make_exception({"type": "ValueError", "msg": "sim " + variant, "cause": None, "context": None})
        try:
            g["f0"](exc, depth)
        except BaseException as e:
            trace = ExceptionTrace(e)
        draw = trace.render
    outs = []
    try:
        for _ in range(times):
            io, out, err = _mk_io(cfg)
            draw(io)
            outs.append(out.data() + err.data())
    finally:
        if cleanup is not None:
            cleanup()
    return outs


def _raise_deep(exc, n):
    if n > 0:
        return _raise_deep(exc, n - 1)
    raise exc


# ---- generation -----------------------------------------------------------------------------------
STYLES = ["borderless", "compact", "ascii", "solid"]
CELLS = ["a", "Lorem ipsum dolor", "x" * 30, "<b>bold</b>", "été", "", "12345", "two words"]


def _rows(r):
    ncol = r.randint(1, 4)
    rows = [[r.pick(CELLS) for _ in range(ncol)] for _ in range(r.randint(1, 4))]
    header = [r.pick(["H1", "Name", "Col"]) for _ in range(ncol)] if r.chance(0.6) else None
    return rows, header


def gen(S, tier):
    c = S("config")
    w = S("workload")
    cls = c.weighted([("app", 5), ("style", 3), ("repeat", 2)])
    cfg = {"ansi": c.chance(0.4), "width": c.pick([60, 100, 120]), "verbosity": c.pick([0, 0, 1, 4])}
    if cls == "app":
        spec = apptree.gen_app(c)
        spec["shared_parser"] = c.chance(0.3)
        lv = apptree.leaves(spec)
        if S("extension").chance(0.2):
            spec["help_alias"] = "hlp"
        # some commands parse leniently; some handlers raise
        scripts = {}
        for p, cmd, ch in lv:
            if c.chance(0.2):
                cmd["lenient"] = True
            if c.chance(0.2):
                scripts[str(cmd["hid"])] = [["err", "about to fail", None], ["raise", {"type": "ValueError", "msg": "handler %d failed" % cmd["hid"], "cause": None, "context": None}]]
            else:
                scripts[str(cmd["hid"])] = [["out", "<info>ran %d</info>" % cmd["hid"], None], ["return", c.pick([None, 0, 2, 300])]]
            if c.chance(0.25):
                # the handler extends the list values it was handed (after they were recorded)
                scripts[str(cmd["hid"])].insert(0, ["mutate_args"])
            if c.chance(0.2):
                # attached as a factory: every run asks for a handler of its own, which keeps state on itself
                spec.setdefault("handler_kinds", {})[str(cmd["hid"])] = "factory"
                scripts[str(cmd["hid"])].insert(0, ["stateful"])
            if c.chance(0.12):
                # output that leaves a style open when the handler is done (or fails)
                scripts[str(cmd["hid"])].insert(0, [c.pick(["out", "err"]), c.pick(["<info>working on it", "<b>still bold", "<fg=red>alarm"]), None])
        lines = []
        for _ in range(w.randint(2, 8)):
            p, cmd, ch = w.pick(lv)
            target = apptree.resolved_target(cmd)
            chain = ch + ([target] if target is not cmd else [])
            tail, _, _ = apptree.gen_line(w, chain)
            k = w.weighted([("valid", 5), ("unknown_option", 1.5), ("surplus", 1), ("missing", 1), ("unknown_command", 1),
                            ("help_cmd", 1), ("help_path", 2), ("path_help", 2), ("dash_h", 1), ("version", 1), ("switch", 1),
                            ("path_only", 1.5), ("bare_unknown_option", 0.8), ("help_unknown_option", 0.8),
                            ("same_unknown_option", 0.8)])
            if k == "valid":
                toks = p + tail
            elif k == "unknown_option":
                toks = p + tail + ["--nope"]
            elif k == "surplus":
                toks = p + tail + ["s1", "s2", "s3"]
            elif k == "missing":
                toks = list(p)
            elif k == "unknown_command":
                toks = ["nosuch"] + tail
            elif k == "help_cmd":
                toks = ["help"]
            elif k == "bare_unknown_option":
                toks = ["--nope"]               # no command: parsed by the default command
            elif k == "help_unknown_option":
                toks = ["help"] + w.pick([[], p]) + ["--nope"]
            elif k == "same_unknown_option" and lines:
                # a failing line for a command that an earlier line of this history also addressed
                prev = lines[w.randrange(len(lines))][1]
                toks = [t for t in prev if t != "--nope"] + ["--nope"]
            elif k == "help_path":
                toks = ["help"] + p
            elif k == "path_help":
                toks = p + [w.pick(["--help", "-h"])]
            elif k == "dash_h":
                toks = ["-h"]
            elif k == "version":
                toks = p + tail + [w.pick(["--version", "-V"])]
            elif k == "path_only":
                toks = list(p)
            else:
                toks = p + tail + [w.pick(["-q", "-vv", "--no-ansi", "--ansi", "-n", "-vvv"])]
            if spec.get("help_alias") and toks and toks[0] == "help" and w.chance(0.6):
                toks = [spec["help_alias"]] + toks[1:]
            # each run has its own streams: whether they are a terminal varies from run to run
            lines.append([k, toks, w.chance(0.5), w.chance(0.15)])
        return {"class": "app", "cfg": cfg, "app": spec, "scripts": scripts, "lines": lines, "ops": [], "renders": []}
    if cls == "style":
        ops = []
        n_styles = 0
        rows, header = _rows(w)
        for _ in range(w.randint(2, 12)):
            k = w.weighted([("make", 3), ("customise", 3), ("render", 4)]) if n_styles else "make"
            if k == "make":
                ops.append(["make", n_styles, w.pick(STYLES + ["default"])])
                n_styles += 1
            elif k == "customise":
                what = w.pick(["hc", "vc", "crossing", "corner", "cell_format", "header_format", "align", "padding", "border_colour",
                               "cell_style", "cell_style", "header_style", "border_recolour"])
                value = {"hc": w.pick(["=", "~", ""]), "vc": w.pick(["|", " ", "!"]), "crossing": w.pick(["+", "*", ""]),
                         "corner": w.pick(["#", "o"]), "cell_format": w.pick(["[{}]", " {} ", "{}"]),
                         "header_format": w.pick(["<b>{}</b>", " {} "]), "align": [w.randrange(len(rows[0])), w.randrange(3)],
                         "padding": w.pick([".", " "]), "border_colour": w.pick(["red", "blue"]),
                         "cell_style": None, "header_style": None, "border_recolour": None}[what]
                if value is None:
                    value = [w.pick(["red", "blue", "green"]), w.chance(0.5), w.chance(0.7)]
                ops.append(["customise", w.randrange(n_styles), what, value])
            else:
                i = w.randrange(n_styles)
                ops.append(["render", i])
                if w.chance(0.3):
                    # rendered, then the Style object it holds edited in place, then rendered again
                    ops.append(["customise", i, w.pick(["cell_style", "header_style", "border_recolour"]),
                                [w.pick(["red", "blue", "green"]), w.chance(0.5), True]])
                    ops.append(["render", i])
        ops.append(["render", w.randrange(n_styles)])
        return {"class": "style", "cfg": cfg, "ops": ops, "rows": rows, "header": header, "lines": [], "renders": []}
    renders = []
    for _ in range(w.randint(1, 4)):
        k = w.pick(["table", "table", "app_help", "cmd_help", "name_version", "paragraph", "labeled", "trace", "trace_sim", "trace_sim"])
        if k == "table":
            rows, header = _rows(w)
            renders.append(["table", w.pick(STYLES + ["default"]), rows, header, w.pick([0, 0, 2, 4])])
        elif k in ("app_help", "cmd_help", "name_version"):
            spec = apptree.gen_app(w, n_cmds=w.randint(1, 3))
            if k == "cmd_help":
                p, cmd, ch = w.pick(apptree.leaves(spec))
                renders.append(["cmd_help", spec, p])
            else:
                renders.append([k, spec])
        elif k == "paragraph":
            renders.append(["paragraph", w.pick(["short", "Lorem ipsum dolor sit amet " * 8, "<info>tagged</info> text"]), w.pick([0, 4])])
        elif k == "labeled":
            renders.append(["labeled", w.pick(["--option", "<c1>label</c1>"]), w.pick(["desc", "A long description " * 10]), w.pick([0, 2])])
        elif k == "trace_sim":
            renders.append(["trace_sim", w.pick(["alpha", "beta", "gamma"]), w.pick([0, 2])])
        else:
            renders.append(["trace", {"type": w.pick(["ValueError", "KeyError", "Foreign"]), "msg": w.pick(srcgen.MESSAGES), "cause": None, "context": None}, w.pick([0, 3, 12])])
    return {"class": "repeat", "cfg": cfg, "renders": renders, "lines": [], "ops": []}


def simplify(sc):
    cfg = sc["cfg"]
    for k, v in (("ansi", False), ("verbosity", 0), ("width", 100)):
        if cfg[k] != v:
            yield dict(sc, cfg=dict(cfg, **{k: v}))
    if sc["class"] == "app":
        spec = sc["app"]
        if spec.get("shared_parser"):
            yield dict(sc, app=dict(spec, shared_parser=False))
        if len(spec["commands"]) > 1:
            used = {l[1][0] for l in sc["lines"] if l[1]} | {l[1][1] for l in sc["lines"] if len(l[1]) > 1 and l[1][0] in ("help", "hlp")}
            keep = [c for c in spec["commands"] if c["name"] in used]
            if keep and len(keep) < len(spec["commands"]):
                yield dict(sc, app=dict(spec, commands=keep))
        for i, line in enumerate(sc["lines"]):
            k, toks = line[0], line[1]
            for j in range(len(toks)):
                if toks[j].startswith("-") or j >= 2:
                    yield dict(sc, lines=sc["lines"][:i] + [[k, toks[:j] + toks[j + 1:]] + line[2:]] + sc["lines"][i + 1:])
    if sc["class"] == "style":
        rows = sc["rows"]
        if len(rows) > 1:
            yield dict(sc, rows=rows[:1])
        if sc["header"]:
            yield dict(sc, header=None)
        if len(rows[0]) > 1 and not any(op[0] == "customise" and op[2] == "align" for op in sc["ops"]):
            yield dict(sc, rows=[r[:1] for r in rows], header=sc["header"][:1] if sc["header"] else None)


def condition(sc, v):
    return {"class": sc["class"]}


# ---- execution -------------------------------------------------------------------------------------
def execute(sc):
    """The scenario itself runs in a child of the pristine zygote, so that it is a pure function of
    the scenario: process-global state left behind by *earlier scenarios of this worker* (exactly the
    kind of state this property is about) cannot leak into it.  Inside that child the history of the
    scenario accumulates normally, and the child forks its own pristine zygote for the references."""
    zygote.ensure()
    return zygote.reference(ME, "execute_inner", sc)


def execute_inner(sc):
    zygote.ensure()
    res = Result()
    old = {k: os.environ.get(k) for k in ("COLUMNS", "LINES")}
    try:
        if sc["class"] == "app":
            _exec_app(sc, res)
        elif sc["class"] == "style":
            _exec_style(sc, res)
        else:
            _exec_repeat(sc, res)
    finally:
        for k, v in old.items():
            if v is None:
                os.environ.pop(k, None)
            else:
                os.environ[k] = v
    return res


ME = "dsim.props.c17_history_independence"


def _diff(a, b):
    names = ["outcome", "stdout", "stderr", "handler calls"]
    for n, x, y in zip(names, a, b):
        if x != y:
            return n, x, y
    return None


def _exec_app(sc, res):
    spec, scripts, cfg = sc["app"], sc["scripts"], sc["cfg"]
    inv = []
    try:
        app = apptree.build_app(spec, scripts, inv, handler_kinds=_kinds(spec))
    except Exception as e:
        res.events.append(("unbuildable", type(e).__name__))
        return
    if spec.get("shared_parser"):
        res.probe("shared_parser")
    if any(cmd.get("lenient") for p, cmd, ch in apptree.leaves(spec)):
        res.probe("lenient_command")
    hist = []  # (kind, failed)
    raws = []  # raw-argument objects of earlier runs
    HELP = ("help_cmd", "help_path", "path_help", "dash_h")
    for i, line in enumerate(sc["lines"]):
        kind, toks = line[0], line[1]
        lcfg = dict(cfg, ansi=line[2]) if len(line) > 2 else cfg
        res.steps += 1
        toks_before = list(toks)
        raw = None
        if len(line) > 3 and line[3] and raws:
            # the caller passes the very same raw-arguments object as for an earlier run
            raw, toks = raws[-1]
            toks_before = list(toks)
            res.probe("same_raw_args_object_again")
        else:
            from clikit.args import ArgvArgs
            raw = ArgvArgs(["prog"] + list(toks))
            raws.append((raw, list(toks)))
        got = run_line(app, inv, toks, lcfg, raw)
        want = zygote.reference(ME, "ref_run_line", spec, scripts, toks_before, lcfg)
        res.events.append((i, kind, digest(got)))
        if spec.get("help_alias") and toks_before and toks_before[0] == spec["help_alias"]:
            res.probe("help_addressed_by_alias")
        if list(raw.tokens) != toks_before:
            res.violate("input_mutated", "raw_args", "the caller's raw arguments changed from %r to %r" % (toks_before, list(raw.tokens)))
        if list(toks) != toks_before:
            res.violate("input_mutated", "tokens", "the caller's token list changed from %r to %r" % (toks_before, toks))
        if hist:
            if any(k in HELP for k, _ in hist):
                res.probe("after_help_run")
            if any(f for _, f in hist):
                res.probe("after_failed_run")
                res.fault("failed_run_before")
        d = _diff(got, want)
        if d is not None:
            cause = "after_" + (hist[-1][0] if hist else "nothing")
            res.violate("reused_vs_fresh", d[0].replace(" ", "_"),
                        "run %d %r (%s, %s): reused application %s = %r, fresh application %r" % (
                            i, toks, kind, cause, d[0], _short(d[1]), _short(d[2])))
            break
        failed = got[0] != ("status", 0)
        hist.append((kind, failed))
        if kind in ("help_path", "path_help") and failed:
            res.probe("help_of_unparsable_default_sub")
    res.states.add(("app", tuple(k for k, _ in hist)))
    res.nontrivial = len(hist) >= 2 and any(f or k in HELP for k, f in hist[:-1])


def _short(x):
    s = repr(x)
    return s if len(s) < 400 else s[:400] + "..."


def _exec_style(sc, res):
    cfg, rows, header = sc["cfg"], sc["rows"], sc["header"]
    _env(cfg)
    styles = {}
    made = []
    for i, op in enumerate(sc["ops"]):
        res.steps += 1
        k = op[0]
        try:
            if k == "make":
                styles[op[1]] = _make_style(op[2]) if op[2] != "default" else None
                if op[2] in [m for m in made]:
                    res.probe("style_pair_from_same_factory")
                made.append(op[2])
            elif k == "customise":
                if op[1] not in styles or styles[op[1]] is None:
                    continue
                _customise(styles[op[1]], op[2], op[3])
                if len(styles) > 1:
                    res.probe("style_customised_after_sibling")
                if op[2] in ("cell_style", "header_style", "border_recolour") and op[3][2] and \
                        any(o[0] == "render" and o[1] == op[1] for o in sc["ops"][:i]):
                    res.probe("style_object_edited_in_place_after_render")
            elif k == "render":
                if op[1] not in styles:
                    continue
                got = render_table(styles[op[1]], rows, header, cfg)
                own = [o for o in sc["ops"][:i] if o[0] in ("make", "customise") and o[1] == op[1] and (o[0] == "make" or styles[op[1]] is not None)]
                want = zygote.reference(ME, "ref_style_render", own, rows, header, cfg)
                res.events.append((i, "render", op[1], digest(got)))
                if got != want:
                    others = [o for o in sc["ops"][:i] if o[0] in ("make", "customise") and o[1] != op[1]]
                    res.violate("style_aliasing", "table_render",
                                "table with style #%d (%r) renders %r; the same style built in isolation renders %r (other styles touched before: %r)" % (
                                    op[1], own, got[:200], want[:200], others[-3:]))
                    break
        except Exception as e:
            res.violate("op_raised", k, "%s: %s" % (type(e).__name__, e))
            break
    res.states.add(("style", tuple(made)))
    res.nontrivial = len(made) >= 2


def _exec_repeat(sc, res):
    cfg = sc["cfg"]
    for i, spec in enumerate(sc["renders"]):
        res.steps += 1
        try:
            a, b = render_component(spec, cfg, 2)
        except Exception as e:
            res.events.append((i, "render_raised", type(e).__name__))
            continue  # totality of rendering is not this property's subject
        want = zygote.reference(ME, "render_component", spec, cfg, 1)[0]
        res.events.append((i, spec[0], digest(a)))
        res.probe({"table": "repeat_table", "app_help": "repeat_help", "cmd_help": "repeat_help", "trace": "repeat_trace", "trace_sim": "repeat_trace"}.get(spec[0], "repeat_other"))
        if a != b:
            res.violate("repeat_render", spec[0] + ":second", "second rendering differs: %r vs %r" % (_short(a), _short(b)))
        elif a != want:
            res.violate("repeat_render", spec[0] + ":pristine", "rendering in the worker %r differs from the pristine process %r" % (_short(a), _short(want)))
    res.states.add(("repeat", tuple(s[0] for s in sc["renders"])))
    res.nontrivial = len(sc["renders"]) >= 2
