"""C18 - questions return only valid answers, count attempts exactly and terminate.

System: real Question / ChoiceQuestion / SelectChoiceValidator / ConfirmationQuestion / Input / IO.
Simulated: the user (SimInputStream script), the error stream, ``question.subprocess`` (stub: no
stty reachable, so the line-reading path is taken).  Faults: the user goes away - end of input
after every prefix of the script, torn last line, over-long line.  Non-termination is decided by
a read budget after end of input, never by wall-clock.
"""
import re

from ..harness import Result
from ..streams import AskedForever, EventLog, Runaway, SimInputStream, SimOutputStream

PROP = "C18"
LEVEL = "fault_enumeration"
RUNS = {"quick": 60000, "thorough": 5000000}
OPS_KEYS = ("script", "script2")
INFO = {
    "rule": "seeded dialogues: choice lists of 1-5 entries (numeric-looking, duplicated, spaced, "
            "case-differing, non-ASCII), single/multi-select, defaults, attempt limits {unlimited,1,2,3}, "
            "answer scripts of 0-4 lines over an adversarial alphabet; plain questions with a validator; "
            "confirmations over patterns x answers; interactive on/off.  Every generated script is also run "
            "with end of input after each prefix (fault enumeration), with a torn last line and sometimes an "
            "over-long line.  non-trivial = >= 2 entries consumed or end of input hit inside the dialogue; "
            "distinct = distinct event-log digests",
    "states_measure": "(kind, multi, limit, outcome class, entries consumed, errors printed) tuples",
    "components_real": ["clikit.ui.components.Question/ChoiceQuestion/ConfirmationQuestion",
                        "clikit.ui.components.choice_question.SelectChoiceValidator", "clikit.api.io.Input/IO/Output",
                        "clikit.formatter.AnsiFormatter"],
    "components_stubbed": ["InputStream (scripted user)", "OutputStream x2 (simulated)",
                           "subprocess seen by question.py (stty unreachable)"],
    "assumptions": [
        "an entry equal to a duplicated choice, or an index written in a non-canonical integer form "
        "(+1, 1_0, non-ASCII digits), may be accepted or rejected (unspecified); everything else is decided "
        "by the reference dialogue model",
        "choices containing a comma cannot be named in a multi-select answer and are not generated there",
        "a non-interactive question returns the configured default as given (index text for a choice question)",
    ],
}
EXPECTED_PROBES = ("eof_inside_dialogue", "eof_unlimited_attempts", "limit_exhausted", "index_answer",
                   "value_answer", "ambiguous_entry", "multi_select", "default_on_empty", "overlong_line",
                   "torn_last_line", "non_interactive", "confirmation", "second_ask_same_object")

_q = None


class _NoStty(object):
    """Stand-in for the subprocess module inside question.py: no stty reachable."""
    PIPE = -1

    @staticmethod
    def call(*a, **k):
        raise OSError(2, "simulated: no stty")

    @staticmethod
    def check_output(*a, **k):
        raise OSError(2, "simulated: no stty")


def setup():
    global _q
    import clikit.ui.components.question as q
    _q = q
    q.subprocess = _NoStty


CHOICE_POOL = ["Superman", "Batman", "Spiderman", "superman", "Bat man", "café", "1", "0", "10", "x-ray", "a_b"]
ANSWERS = ["", " ", "%V", "%V", "%I", "%I", " %I ", "-1", "99", "%I,%J", "%V,%W", "%I , %J", "1,,2", "a,b",
           "%D", "nope", "Ünï", "+1", "%LONG", "%V ", "%I,", ",%I", "%I,%J,%I", "%V,%I,%J", "%I, %W ,%J,%V"]


def gen(S, tier):
    c = S("config")
    w = S("workload")
    kind = c.weighted([("choice", 6), ("question", 2), ("confirm", 2)])
    sc = {"kind": kind, "interactive": not c.chance(0.1), "attempts": c.pick([None, None, 1, 2, 3]),
          # how interaction is switched off: on the IO, on its input, or on the IO a section IO was made from
          "off_via": c.pick(["io", "io", "input", "section_before", "section_after"]),
          "torn": False, "script": [],
          # who reads the typed lines: the simulated input stream, or clikit's own StreamInputStream /
          # StringInputStream over an in-memory source
          "input_via": c.weighted([("sim", 6), ("stream", 3), ("string", 2), ("null", 0.6)]),
          # fault: the program's standard output is gone (closed) - the dialogue runs on the error output
          "stdout_closed": c.chance(0.1)}
    if kind == "choice":
        n = c.randint(1, 5)
        choices = [c.pick(CHOICE_POOL) for _ in range(n)] if c.chance(0.25) else c.sample(CHOICE_POOL, n)
        multi = c.chance(0.4)
        default = None
        if c.chance(0.4):
            default = str(c.randrange(n))
            if multi and c.chance(0.5):
                default = "%d, %d" % (c.randrange(n), c.randrange(n))
        sc.update({"choices": choices, "multi": multi, "default": default,
                   "error_message": c.pick([None, None, 'Input "{}" is no good'])})
    elif kind == "question":
        sc.update({"default": c.pick([None, "white"]), "valid": ["white", "black"],
                   "validator": c.chance(0.8),
                   # what the application's validator raises for an invalid entry
                   "validator_raises": c.pick(["ValueError", "ValueError", "RuntimeError", "Custom", "LookupError"])})
    else:
        sc.update({"default": c.chance(0.5), "pattern": c.pick(["(?i)^y", "(?i)^y", "^(oui|o)$", "^[jJ]", "(?i)y", "1", "o", "ja?"])})
    for _ in range(w.randint(0, 4)):
        sc["script"].append(_answer(w, sc))
    # the same question object asked a second time, on a fresh IO with its own script: what the
    # first dialogue left behind (remaining attempts, last error) must not show in the second
    sc["script2"] = [_answer(w, sc) for _ in range(w.randint(0, 3))] if w.chance(0.35) else None
    # second ask on a NEW I/O wrapped around the SAME source: it continues where the first stopped
    sc["shared_source"] = sc["input_via"] == "stream" and sc["script2"] is not None and w.chance(0.6)
    # ... or on the SAME I/O, after more input was appended to its StringInputStream
    sc["append_same_io"] = sc["input_via"] == "string" and sc["script2"] is not None and w.chance(0.6)
    if sc["input_via"] == "null":
        sc["script"] = []   # NullInputStream: there is never anything to read
    return sc


def _answer(w, sc):
    if sc["kind"] == "confirm":
        return w.pick(["", "y", "Y", "yes", "n", "no", "yep", " y ", "maybe", "oui", "o", "ja", "N", "0", "nay", "01", "1", "non", "naja"]) + "\n"
    if sc["kind"] == "question":
        return w.pick(["", "white", "black", "green", " white ", "WHITE", "Ünï"]) + "\n"
    ch = sc["choices"]
    t = w.pick(ANSWERS)
    i, j = w.randrange(len(ch)), w.randrange(len(ch))
    t = t.replace("%I", str(i)).replace("%J", str(j)).replace("%V", ch[i]).replace("%W", ch[j])
    dups = [x for x in ch if ch.count(x) > 1]
    t = t.replace("%D", dups[0] if dups else ch[0])
    t = t.replace("%LONG", "z" * 4100)
    return t + "\n"


def sweep(sc, tier):
    """Fault enumeration: end of input after every proper prefix; torn last line."""
    out = []
    n = len(sc["script"])
    for k in range(n):
        out.append(dict(sc, script=sc["script"][:k]))
    if n and sc["script"][-1].endswith("\n"):
        out.append(dict(sc, torn=True))
    return out


def simplify(sc):
    if sc.get("script2") is not None:
        yield dict(sc, script2=None)
    if sc.get("attempts") not in (None, 1):
        yield dict(sc, attempts=1)
    if sc.get("error_message"):
        yield dict(sc, error_message=None)
    if sc["kind"] == "choice":
        ch = sc["choices"]
        if sc.get("default") is not None:
            yield dict(sc, default=None)
        for i in range(len(ch)):
            if len(ch) > 1 and sc.get("default") is None:
                yield dict(sc, choices=ch[:i] + ch[i + 1:])
        if sc["multi"]:
            yield dict(sc, multi=False)
    for i, line in enumerate(sc["script"]):
        if len(line) > 2:
            yield dict(sc, script=sc["script"][:i] + [line[:len(line) // 2] + "\n"] + sc["script"][i + 1:])


def condition(sc, v):
    return {"kind": sc["kind"], "multi": bool(sc.get("multi"))}


# ---- reference dialogue model -----------------------------------------------------------------
_CANON_INT = re.compile(r"^-?[0-9]+$")


def _single(choices, text):
    """('ok', value) | ('invalid',) | ('open',)"""
    hits = [i for i, c in enumerate(choices) if c == text]
    if len(hits) > 1:
        return ("open",)
    if len(hits) == 1:
        return ("ok", choices[hits[0]])
    if _CANON_INT.match(text):
        v = int(text)
        if 0 <= v < len(choices):
            return ("ok", choices[v])
        return ("invalid",)
    try:
        int(text)
        return ("open",)  # non-canonical integer spelling
    except ValueError:
        return ("invalid",)


def model_validate(sc, text):
    if text is None:
        return ("invalid",)
    ch = sc["choices"]
    if not sc["multi"]:
        return _single(ch, text)
    parts = [p.strip() for p in text.split(",")]
    if any(p == "" for p in parts):
        return ("invalid",)
    vals = []
    for p in parts:
        r = _single(ch, p)
        if r[0] != "ok":
            return r
        vals.append(r[1])
    return ("ok", vals)


def _entries(sc):
    """The script as the component's reads will see it (4096-character chunks)."""
    out = []
    lines = list(sc["script"])
    if sc["torn"] and lines:
        lines[-1] = lines[-1].rstrip("\n")
        if lines[-1] == "":
            lines.pop()  # a torn empty line is no line at all
    for line in lines:
        while len(line) > 4096:
            out.append(line[:4096])
            line = line[4096:]
        out.append(line)
    return lines, out


def _wellformed(sc):
    if sc["kind"] != "choice":
        return True
    if not sc["choices"]:
        return False
    d = sc.get("default")
    if d is None:
        return True
    try:
        return all(0 <= int(x.strip()) < len(sc["choices"]) for x in d.split(","))
    except ValueError:
        return False


def execute(sc):
    res = Result()
    log = EventLog()
    if not _wellformed(sc):
        return res  # only the shrinker can produce these; no verdict
    q = _make_question(sc, res)
    shared = {}
    _dialogue(sc, q, res, log, "", shared)
    if sc.get("script2") is not None and not res.violations:
        sc2 = dict(sc, script=sc["script2"], torn=False)
        if sc.get("shared_source") and shared.get("source") is not None and sc["interactive"]:
            from ..realstream import append_to_source, unread_lines
            if sc["torn"]:
                append_to_source(shared["source"], ["\n"])  # the user finishes the torn line first
            append_to_source(shared["source"], sc["script2"])
            sc2 = dict(sc2, script=unread_lines(shared["source"]), _source=shared["source"])
            res.probe("second_io_on_same_source")
        elif sc.get("append_same_io") and shared.get("io") is not None and sc["interactive"]:
            io_, inp_, out_, err_, full = shared["io"]
            rest = full.encode("utf-8")[inp_.consumed:].decode("utf-8", "replace")
            more = "".join(sc["script2"])
            if full and not full.endswith("\n"):
                more = "\n" + more   # the user finishes the torn line first
            inp_.append(more)
            sc2 = dict(sc2, script=(rest + more).splitlines(True), _io=shared["io"])
            res.probe("second_ask_same_io_after_append")
        n0, nt = len(res.violations), res.nontrivial
        _dialogue(sc2, q, res, log, "second_ask:", {})
        for v in res.violations[n0:]:
            v["where"] = "second_ask:" + v["where"]
        res.nontrivial = res.nontrivial or nt
        res.probe("second_ask_same_object")
    res.events = log.events
    return res


def _make_question(sc, res):
    from clikit.ui.components import ChoiceQuestion, ConfirmationQuestion, Question
    kind = sc["kind"]
    limit = sc["attempts"]
    if kind == "choice":
        q = ChoiceQuestion("Pick one?", list(sc["choices"]), sc["default"])
        q.set_multi_select(sc["multi"])
        if sc.get("error_message"):
            q.set_error_message(sc["error_message"])
    elif kind == "question":
        q = Question("Colour?", sc["default"])
        if sc["validator"]:
            class NotAColour(RuntimeError):
                pass

            exc_type = {"ValueError": ValueError, "RuntimeError": RuntimeError, "Custom": NotAColour,
                        "LookupError": LookupError}[sc.get("validator_raises", "ValueError")]

            def validator(v):
                if v not in sc["valid"]:
                    raise exc_type("This is not a colour: %r" % (v,))
                return v
            q.set_validator(validator)
    else:
        q = ConfirmationQuestion("Sure?", sc["default"], sc["pattern"])
        res.probe("confirmation")
    if limit is not None:
        q.set_max_attempts(limit)
    return q


def _dialogue(sc, q, res, log, tag, shared):
    from clikit.api.formatter import Style, StyleSet
    from clikit.api.io import IO, Input, Output
    from clikit.formatter import AnsiFormatter

    lines, entries = _entries(sc)
    if sc.get("input_via") == "null":
        lines, entries = [], []   # a NullInputStream never has anything typed into it
    limit = sc["attempts"]
    kind = sc["kind"]
    has_validator = kind == "choice" or (kind == "question" and sc.get("validator"))
    budget = limit if (limit and has_validator) else 2
    via = sc.get("input_via", "sim")
    reuse = sc.get("_io")
    if reuse is not None:
        io, inp, out, err, _ = reuse
        inp.reads = inp.reads_after_eof = 0
        inp.eof_budget = max(budget, 1) + 2
        del out.writes[:]
        del err.writes[:]
        out.n_calls = err.n_calls = 0
    elif via == "null":
        from clikit.io.input_stream.null_input_stream import NullInputStream
        from ..realstream import counting
        inp = counting(NullInputStream)().dsim_init(log, max(budget, 1) + 2)
        res.probe("null_input")
    elif via == "stream":
        from clikit.io.input_stream.stream_input_stream import StreamInputStream
        from ..realstream import counting, string_source
        src = sc.get("_source")
        if src is None:
            src = string_source(lines)
        shared["source"] = src
        inp = counting(StreamInputStream)(src).dsim_init(log, max(budget, 1) + 2)
        res.probe("real_stream_input")
    elif via == "string":
        from clikit.io.input_stream.string_input_stream import StringInputStream
        from ..realstream import counting
        inp = counting(StringInputStream)("".join(lines)).dsim_init(log, max(budget, 1) + 2)
        res.probe("real_string_input")
    else:
        inp = SimInputStream(log, lines, eof_budget=max(budget, 1) + 2)
    if reuse is None:
        out = SimOutputStream("out", log, ansi=True)
        if sc.get("stdout_closed"):
            out.close()
            res.fault("stdout_closed")
        err = SimOutputStream("err", log, ansi=True)
        err.max_calls = out.max_calls = 400  # a dialogue of <= 12 reads cannot need more
        # the harness's own style set: error lines are recognised by a style the harness chose
        fm = AnsiFormatter(StyleSet([Style("error").fg("magenta").underlined(), Style("question").fg("blue"),
                                     Style("comment").fg("cyan"), Style("info").fg("green"), Style("hl").fg("black").bg("white")]))
        io = IO(Input(inp), Output(out, fm), Output(err, fm))
        shared["io"] = (io, inp, out, err, "".join(lines))
    if not sc["interactive"] and reuse is None:
        via = sc.get("off_via", "io")
        if via == "input":
            io.input.set_interactive(False)
        elif via == "section_before":
            sec = io.section()          # made first, switched off through the parent afterwards
            io.set_interactive(False)
            io = sec
        elif via == "section_after":
            io.set_interactive(False)
            io = io.section()
        else:
            io.set_interactive(False)
        res.probe("off_via_" + via)

    outcome = None
    try:
        value = q.ask(io)
        outcome = ("return", value)
    except (AskedForever, Runaway):
        outcome = ("forever",)
    except Exception as e:
        outcome = ("raise", type(e).__name__, str(e)[:80])
    log.add("outcome", outcome[0], repr(outcome[1:])[:120])

    err_data = err.data()
    n_err = len(re.findall(r"\x1b\[35;4m", err_data))
    reads = inp.reads
    after_eof = inp.reads_after_eof
    res.steps = reads
    res.events = log.events

    # ---- non-interactive -------------------------------------------------------------------
    if not sc["interactive"]:
        res.probe("non_interactive")
        if outcome != ("return", sc["default"]):
            res.violate("non_interactive", "value", "returned %r, default is %r" % (outcome, sc["default"]))
        if reads or err_data or out.data():
            res.violate("non_interactive", "io", "%d reads, stderr %r, stdout %r" % (reads, err_data[:40], out.data()[:40]))
        res.nontrivial = False
        return res

    # ---- termination -------------------------------------------------------------------------
    if outcome[0] == "forever" or after_eof > budget:
        res.fault("eof")
        if limit is None:
            res.probe("eof_unlimited_attempts")
        res.violate("asks_forever", "unlimited" if limit is None else "limited",
                    "%d reads after end of input (budget %d); script %r" % (after_eof, budget, lines))
        return res
    if after_eof:
        res.fault("eof")
        res.probe("eof_inside_dialogue")
        if limit is None:
            res.probe("eof_unlimited_attempts")
        if reads - after_eof < len(entries):
            # (cannot happen with the simulated user; clikit's own stream classes sit in between here)
            res.violate("input_lost", "end_of_input_before_the_end", "the dialogue was told 'end of input' after %d of the %d typed entries %r" % (
                reads - after_eof, len(entries), entries))
            return res
    if sc["torn"]:
        res.fault("torn_last_line")
        res.probe("torn_last_line")
    if any(len(x) > 4096 for x in lines):
        res.fault("overlong_line")
        res.probe("overlong_line")

    # ---- walk the reference model over the entries actually consumed --------------------------
    consumed = entries[:reads - after_eof]
    if kind == "confirm":
        _check_confirm(sc, res, outcome, consumed, after_eof)
    else:
        _check_dialogue(sc, res, outcome, consumed, after_eof, n_err, limit, has_validator, entries)
    res.states.add((kind, bool(sc.get("multi")), limit, outcome[0], len(consumed), n_err))
    res.nontrivial = len(consumed) >= 2 or after_eof > 0
    return res


def _check_confirm(sc, res, outcome, consumed, after_eof):
    if not consumed:
        if outcome[0] != "raise":
            res.violate("eof", "confirm", "no input at all, outcome %r" % (outcome,))
        return
    ans = consumed[0].strip()
    want = sc["default"] if ans == "" else (re.match(sc["pattern"], ans) is not None)
    if outcome[0] != "return" or bool(outcome[1]) != bool(want):
        res.violate("confirmation", "value", "answer %r pattern %r default %r -> %r, expected %r" % (
            ans, sc["pattern"], sc["default"], outcome, want))
    if len(consumed) != 1:
        res.violate("confirmation", "reads", "consumed %d lines" % len(consumed))


def _check_dialogue(sc, res, outcome, consumed, after_eof, n_err, limit, has_validator, entries):
    kind = sc["kind"]
    default = sc["default"]

    def classify(entry):
        t = entry.strip()
        if t == "":
            t = default
            if default is not None:
                res.probe("default_on_empty")
        if kind == "choice":
            return model_validate(sc, t), t
        if not sc["validator"]:
            return ("ok", t), t
        return (("ok", t) if t in sc["valid"] else ("invalid",)), t

    if kind == "choice" and sc["multi"]:
        res.probe("multi_select")

    invalid = 0
    open_seen = False
    final = None
    for k, entry in enumerate(consumed):
        r, t = classify(entry)
        last = k == len(consumed) - 1
        if r[0] == "open":
            open_seen = True
            res.probe("ambiguous_entry")
            break
        if r[0] == "ok":
            final = (k, r[1], t)
            if not last:
                res.violate("accounting", "valid_entry_not_accepted",
                            "entry %d %r is valid (%r) but the dialogue went on; outcome %r" % (k, entry, r[1], outcome))
                return
            break
        invalid += 1
        if kind == "question" and not has_validator:
            break

    if open_seen:
        # unspecified entry: keep only the unconditional guarantees
        if outcome[0] == "return":
            _membership(sc, res, outcome[1])
        return

    if final is not None:
        k, want, t = final
        if kind == "choice" and t is not None:
            if _CANON_INT.match(t.strip()) and t.strip() not in sc["choices"]:
                res.probe("index_answer")
            else:
                res.probe("value_answer")
        if outcome[0] != "return":
            res.violate("valid_answer_rejected", "multi" if sc.get("multi") else "single",
                        "entry %r denotes %r but the question ended with %r (choices %r)" % (consumed[k], want, outcome, sc.get("choices")))
            return
        if outcome[1] != want:
            res.violate("wrong_answer", "multi" if sc.get("multi") else "single",
                        "entry %r denotes %r, returned %r (choices %r)" % (consumed[k], want, outcome[1], sc.get("choices")))
        if kind == "choice":
            _membership(sc, res, outcome[1])
        if n_err != invalid:
            res.violate("accounting", "errors_on_success", "%d invalid entries before the accepted one, %d errors printed" % (invalid, n_err))
        if len(consumed) != invalid + 1:
            res.violate("accounting", "lines_on_success", "%d invalid entries, %d lines consumed" % (invalid, len(consumed)))
        return

    # no entry was valid: the call must have failed
    if outcome[0] == "return":
        if kind == "choice":
            _membership(sc, res, outcome[1])
        res.violate("invalid_answer_accepted", kind, "all of %r are invalid, returned %r (choices %r default %r)" % (
            consumed, outcome[1], sc.get("choices"), default))
        return
    if after_eof:
        # gave up at end of input: errors for the real invalid entries, and at most one per EOF read
        if not (invalid <= n_err <= invalid + after_eof):
            res.violate("accounting", "errors_at_eof", "%d invalid entries, %d reads after EOF, %d errors printed" % (invalid, after_eof, n_err))
        if has_validator and limit is None and n_err != invalid:
            res.violate("accounting", "errors_at_eof", "%d invalid entries, %d errors printed before giving up" % (invalid, n_err))
        return
    # failed without running out of input: exactly the attempt limit was used
    if has_validator:
        if limit is None:
            res.violate("accounting", "raised_with_unlimited_attempts", "raised %r after %d invalid entries with unlimited attempts and input left" % (outcome, invalid))
            return
        res.probe("limit_exhausted")
        if len(consumed) != limit:
            res.violate("accounting", "attempt_limit", "limit %d, %d entries consumed before failing" % (limit, len(consumed)))
        if n_err + 1 != invalid:
            res.violate("accounting", "errors_on_failure", "%d invalid entries, %d errors printed + 1 raised" % (invalid, n_err))


def _membership(sc, res, value):
    ch = sc["choices"]
    if sc["multi"]:
        if not isinstance(value, list) or any(v not in ch for v in value) or not value:
            res.violate("membership", "multi", "returned %r, choices %r" % (value, ch))
    elif value not in ch or isinstance(value, list):
        res.violate("membership", "single", "returned %r, choices %r" % (value, ch))
