"""C20 - error traces always render and show the real message and failing line.

System: real ExceptionTrace / Highlighter / crashtest Inspector+Frame+FrameCollection /
formatters / IO.  Simulated: the source store behind ``open()`` (crashtest.frame) and
``linecache`` (dsim.simfs), the streams.  Faults (each workload is rendered under each kind):
none; exec'd code that never had a file; file gone; unreadable; truncated before / inside / after
the failing line; replaced by other text; emptied - all injected *after* the code ran.
"""
import os
import re

from .. import srcgen
from ..harness import Result
from ..simfs import PREFIX, Store, clear_known_caches, scenario_prefix
from ..streams import EventLog, SimInputStream, SimOutputStream
from ..term import strip_ansi

PROP = "C20"
LEVEL = "fault_enumeration"
RUNS = {"quick": 2500, "thorough": 80000}
OPS_KEYS = ()
INFO = {
    "rule": "seeded workloads: a generated module (call chain depth 1..60, self-recursion, raise on the "
            "first / middle / last line, multi-line statements and strings, comments, non-ASCII, markup-like "
            "text) raising a seeded exception (type, adversarial message, cause chain), rendered at a seeded "
            "verbosity x UTF-8 x ANSI/plain x ignore pattern x simple/full; every workload is rendered "
            "fault-free and under each source-fault kind (sweep).  non-trivial = a trace was rendered from "
            ">= 2 frames or a source fault fired; distinct = distinct event-log digests",
    "states_measure": "(fault kind, verbosity, simple, utf8, ansi, ignore kind) tuples",
    "components_real": ["clikit.ui.components.exception_trace.ExceptionTrace/Highlighter", "crashtest.inspector/frame/frame_collection",
                        "clikit.formatter.*", "clikit.api.io.IO/Output", "inspect + linecache (stdlib)"],
    "components_stubbed": ["open() seen by crashtest.frame (in-memory source store with fault plan)",
                           "module loader get_source (same store)", "OutputStream x2 (simulated)"],
    "assumptions": [
        "exceptions are raised (have a traceback); SystemExit/GeneratorExit are not generated",
        "class name and message are compared with style tags removed on both sides by the harness's own stripper",
        "verbatim snippet lines are asserted for lines made of single-line tokens without markup-like text",
        "undecodable source bytes are not injected (the read happens in the crashtest dependency)",
    ],
}
EXPECTED_PROBES = ("fault_enoent", "fault_eacces", "fault_truncate", "fault_replace", "fault_empty", "exec_origin",
                   "folded_recursion", "raise_on_last_line", "raise_on_first_lines", "multiline_statement",
                   "markup_in_source", "bad_markup_in_source", "markup_in_message", "debug_verbosity", "ignored_frames",
                   "simple_mode", "second_render_other_ignore", "real_stdlib_file", "exec_registered_with_linecache")

_frame_mod = None


def setup():
    global _frame_mod
    import crashtest.frame as fm
    _frame_mod = fm


FAULTS = [None, "exec", "exec_linecache", "enoent", "eacces", "truncate_before", "truncate_inside", "truncate_after", "replace", "empty"]


def gen(S, tier):
    c = S("config")
    w = S("workload")
    depth = w.weighted([(1, 2), (2, 3), (3, 3), (6, 2), (15, 1), (60, 0.5)])
    style = {
        "coding": w.chance(0.2), "preamble_docstring": w.chance(0.3), "markup": w.chance(0.3),
        "bad_markup": w.chance(0.12), "multiline_string": w.chance(0.3), "multiline_call": w.chance(0.3),
        "no_trailing_lines": w.chance(0.2), "odd_separators": w.chance(0.15),
        "leading_continuation": w.chance(0.05),
        # the failing line itself: explicit line joining, or a comment / second statement behind it
        "raise_variant": w.weighted([(None, 6), ("continuation", 1), ("backslash_comment", 1.5), ("markup_comment", 1),
                                     ("formfeed_comment", 0.7), ("tab_comment", 0.5), ("semicolon", 0.5)]),
        "call_suffix": w.weighted([(None, 8), ("backslash_comment", 1), ("markup_comment", 0.5), ("formfeed_comment", 0.5)]),
    }
    if c.chance(0.12):
        # a failure inside a real file of the standard library: the snippet is checked against the file on disk
        return {"class": "realfile", "raiser": c.pick(REAL_RAISERS), "verbosity": c.pick([0, 1, 2, 4]),
                "utf8": c.chance(0.7), "ansi": c.chance(0.5), "fault": None, "ignore": None, "simple": False,
                "depth": 1, "recursion": 0, "style": {}, "exc": {"type": "real", "msg": "", "cause": None, "context": None},
                "two_modules": False, "ignore2": None, "same_trace": False, "verbosity2": 1, "prior_exc": None,
                "prior_simple": False, "src_seed": 0}
    sc = {
        "depth": depth, "recursion": w.pick([0, 0, 0, 2, 5, 20]) if depth <= 6 else 0, "style": style,
        "src_seed": w.getrandbits(40), "cwd_gone": S("extension").chance(0.08), "exc": srcgen.gen_exc_spec(w),
        "verbosity": c.pick([0, 0, 1, 2, 4]), "utf8": c.chance(0.7), "ansi": c.chance(0.5),
        "simple": c.chance(0.12), "ignore": c.pick([None, None, "none", "some", "all"]),
        "two_modules": w.chance(0.4), "fault": None, "prior_simple": False,
        # the same exception rendered a second time with another ignore pattern (a fresh trace object
        # and a fresh IO): what the first rendering left behind must not influence the second
        "ignore2": c.pick([None, None, None, "none", "some", "all"]),
        "same_trace": c.chance(0.5), "verbosity2": c.pick([1, 2, 4]),
        # another exception rendered (on its own IO) before the one under test
        "prior_exc": None,
        "io_kind": c.weighted([("sim", 6), ("buffered", 1), ("real", 1.5)]),
        # the second rendering goes to a stream with the other answer to supports_utf8()
        "utf8_flip2": c.chance(0.3),
        # a hand-built I/O whose error output is more (or less) verbose than its output: the trace is
        # written to the output, and it is the output's verbosity that decides what it shows
        "err_verbosity": c.pick([None, None, None, 0, 4]),
        # the application registered a style of its own on the formatter
        "custom_style": c.chance(0.2),
    }
    if sc["ignore"] in ("some", "all") and c.chance(0.5):
        # the same trace object, the same pattern, the other side of the debug boundary
        sc["ignore2"], sc["same_trace"] = sc["ignore"], True
        sc["verbosity"] = c.pick([1, 2, 4])
        sc["verbosity2"] = c.pick([1, 2]) if sc["verbosity"] == 4 else 4
    if w.chance(0.3):
        sc["prior_exc"] = srcgen.gen_exc_spec(w)
        if w.chance(0.5):
            first, second = srcgen.interacting_pair(w)
            sc["prior_exc"] = dict(sc["prior_exc"], msg=first, cause=None, context=None)
            sc["exc"] = dict(sc["exc"], msg=second)
        sc["prior_simple"] = w.chance(0.5)
    if sc["custom_style"] and w.chance(0.6):
        sc["exc"] = dict(sc["exc"], msg=w.pick(["<info>x</warning>", "<warning>careful</warning> now", "stray </warning> here",
                                                 "<warning>never closed", "<b><warning>x</b></warning>"]))
    if w.chance(0.12):
        # earlier output on the SAME I/O left a style tag open (legal: the style just stays on); the
        # message then closes that style or another one
        t = w.pick(["info", "comment", "b", "question", "fg=red"])
        sc["pre_output"] = "<%s>left open by earlier output" % t
        if w.chance(0.7):
            sc["exc"] = dict(sc["exc"], msg=w.pick(["x </%s> y", "closing </%s> only", "<b>bold</%s>"]) % w.pick(["info", "comment", "error", "b", ""]))
    return sc


REAL_RAISERS = ["json_loads", "ast_literal_eval", "configparser_read", "int_in_fraction", "textwrap_wrap",
                "decimal_quantize", "shlex_split", "struct_unpack_from_lib", "email_parse", "statistics_mean"]


def _real_raise(name):
    import ast, configparser, fractions, json, shlex, statistics, textwrap
    if name == "json_loads":
        json.loads('{"a": ')
    elif name == "ast_literal_eval":
        ast.literal_eval("{1: 2, **{}}")  # "malformed node" - an input whose message carries no object address
    elif name == "configparser_read":
        configparser.ConfigParser().read_string("[s]\nkey value without separator\n= x")
    elif name == "int_in_fraction":
        fractions.Fraction("1/0")
    elif name == "textwrap_wrap":
        textwrap.wrap("text", width=0)
    elif name == "decimal_quantize":
        import decimal
        decimal.Decimal("1").quantize(decimal.Decimal("nonsense-is-not-a-number" * 0 + "abc"))
    elif name == "shlex_split":
        shlex.split("unterminated 'quote")
    elif name == "struct_unpack_from_lib":
        import gzip, io as _io
        gzip.GzipFile(fileobj=_io.BytesIO(b"not gzip data")).read()
    elif name == "email_parse":
        import email.utils
        email.utils.parsedate_to_datetime("not a date")
    else:
        statistics.mean([])
    raise AssertionError("the library call did not fail")


def sweep(sc, tier):
    if sc.get("class") == "realfile":
        return []
    kinds = FAULTS[1:]
    return [dict(sc, fault=k) for k in kinds]


def simplify(sc):
    if sc.get("class") == "realfile":
        return
    if sc.get("ignore2") is not None:
        yield dict(sc, ignore2=None)
    if sc.get("prior_exc"):
        yield dict(sc, prior_exc=None)
    if sc.get("pre_output"):
        yield dict(sc, pre_output=None)
    for k, v in (("recursion", 0), ("two_modules", False), ("ignore", None), ("utf8", True), ("ansi", False)):
        if sc[k] != v:
            yield dict(sc, **{k: v})
    if sc["depth"] > 1:
        yield dict(sc, depth=max(1, sc["depth"] // 2))
        yield dict(sc, depth=sc["depth"] - 1)
    for k, v in sc["style"].items():
        if v:
            yield dict(sc, style=dict(sc["style"], **{k: False}))
    e = sc["exc"]
    if e.get("cause") or e.get("context"):
        yield dict(sc, exc=dict(e, cause=None, context=None))
    if e["type"] != "ValueError":
        yield dict(sc, exc=dict(e, type="ValueError"))
    if e["msg"] != "boom":
        yield dict(sc, exc=dict(e, msg="boom"))
        if len(e["msg"]) > 8:
            yield dict(sc, exc=dict(e, msg=e["msg"][:len(e["msg"]) // 2]))
            yield dict(sc, exc=dict(e, msg=e["msg"][len(e["msg"]) // 2:]))
    if sc["verbosity"] != 0:
        yield dict(sc, verbosity=0)


def condition(sc, v):
    return {"fault": sc["fault"], "simple": sc["simple"]}


_TAG = re.compile(r"(?i)</?[a-z][a-z0-9,_=;-]*>|</>")


# what IS style markup: tags of the default style set, inline styles, closing forms.  A word in angle
# brackets that is none of these (<locals>, <module>, <lambda>, <unknown>) is text.
_STYLE_TAG = re.compile(r"(?i)</?(?:error|info|comment|question|warning|b|u|c1|c2|hl)>|</?(?:fg|bg|options)=[^>]*>|</>")


def _ws(s):
    return re.sub(r"[ \t\n]+", " ", s).strip(" ")


def _strip_tags(s):
    return _TAG.sub("", re.sub(r"\\+<", "<", s))


def _norm(s):
    # blanks, tabs and line ends are layout (the report re-indents the message); anything else,
    # including form feeds and the other characters str.splitlines() knows, is text
    return re.sub(r"[ \t\n]+", " ", _strip_tags(s)).strip(" ")


def execute(sc):
    from clikit.api.io import IO, Input, Output
    from clikit.formatter import AnsiFormatter, PlainFormatter
    from clikit.ui.components.exception_trace import ExceptionTrace
    from crashtest.frame import Frame
    from ..seed import Rng

    res = Result()
    log = EventLog()
    store = Store()
    # process-global caches of the code under test are keyed by file name: every scenario has its
    # own store directory (and known caches are dropped, best effort)
    clear_known_caches()
    old_open = getattr(_frame_mod, "open", None)
    _frame_mod.open = store.open
    try:
        _run(sc, res, log, store, Rng(sc["src_seed"]))
    finally:
        if old_open is None:
            del _frame_mod.open
        else:
            _frame_mod.open = old_open
        store.cleanup()
        clear_known_caches()
        import linecache
        for k in [k for k in linecache.cache if k.startswith("<generated dsim-")]:
            del linecache.cache[k]
    res.events = log.events
    for k, v in store.fault_hits.items():
        res.fault("source_" + k, v)
    return res


def _run_real(sc, res, log):
    """A failure inside real standard-library code; snippet checked against the file on disk."""
    import io as _io
    import tokenize
    from clikit.api.io import IO, Input, Output
    from clikit.formatter import AnsiFormatter, PlainFormatter
    from clikit.ui.components.exception_trace import ExceptionTrace

    try:
        _real_raise(sc["raiser"])
    except BaseException as e:
        exc = e
    if isinstance(exc, AssertionError) and "did not fail" in str(exc):
        return
    tb = exc.__traceback__
    n = 0
    while tb.tb_next:
        tb = tb.tb_next
        n += 1
    path, lineno = tb.tb_frame.f_code.co_filename, tb.tb_lineno
    out = SimOutputStream("out", log, ansi=sc["ansi"], utf8=sc["utf8"])
    fm = AnsiFormatter() if sc["ansi"] else PlainFormatter()
    io = IO(Input(SimInputStream(log, [])), Output(out, fm), Output(SimOutputStream("err", log, ansi=sc["ansi"]), fm))
    io.set_verbosity(sc["verbosity"])
    try:
        ExceptionTrace(exc).render(io)
    except Exception as e:
        res.violate("render_raises", "realfile:" + type(e).__name__, "rendering a %s from %s raised %s: %s" % (type(exc).__name__, path, type(e).__name__, str(e)[:100]))
        return
    text = strip_ansi(out.data())
    log.add("rendered_real", sc["raiser"], len(text))
    res.probe("real_stdlib_file")
    res.nontrivial = True
    res.steps = n + 1
    if type(exc).__name__ not in text:
        res.violate("name_missing", "realfile", "class name %r missing" % type(exc).__name__)
    for line in str(exc).split("\n"):
        if _norm(line) and _norm(line) not in _norm(text):
            res.violate("message_missing", "realfile", "message line %r missing" % line[:80])
            break
    if not os.path.isfile(path):
        return
    try:
        source = open(path, encoding="utf-8").read()
    except Exception:
        return
    src = srcgen.Source()
    src.lines = source.split("\n")
    if src.lines and src.lines[-1] == "":
        src.lines.pop()
    try:
        for tok in tokenize.generate_tokens(_io.StringIO(source).readline):
            if tok.start[0] != tok.end[0]:
                src.multi.update(range(tok.start[0], tok.end[0] + 1))
    except Exception:
        return
    for i, l in enumerate(src.lines, 1):
        if "<" in l or "\t" in l or "\x0c" in l:
            src.markup.add(i)
    _check_snippet(sc, res, text, src, lineno, path)


def _run(sc, res, log, store, r):
    from clikit.api.io import IO, Input, Output
    from clikit.formatter import AnsiFormatter, PlainFormatter
    from clikit.ui.components.exception_trace import ExceptionTrace

    if sc.get("class") == "realfile":
        return _run_real(sc, res, log)
    fault = sc["fault"]
    depth = max(1, sc["depth"])
    src = srcgen.gen_module(r, depth, sc["recursion"], sc["style"])
    base = scenario_prefix(sc)
    path_a = base + "app/main_mod.py"
    path_b = base + "vendor/lib_mod.py"
    exc = srcgen.make_exception(sc["exc"])

    # ---- raise it ---------------------------------------------------------------------------
    caught = None
    if fault == "exec":
        res.probe("exec_origin")
        g = {"__name__": "execd"}
        try:
            exec(compile(src.text(), "<string>", "exec"), g)
            g["f0"](exc)
        except BaseException as e:
            caught = e
        fail_path = "<string>"
        mods = {}
    elif fault == "exec_linecache":
        # generated code that has no file, but whose lines the interpreter knows: registered with
        # linecache the way attrs, doctest and IPython do it
        import linecache
        res.probe("exec_registered_with_linecache")
        fail_path = "<generated dsim-%s>" % sc["src_seed"]
        text_ = src.text()
        linecache.cache[fail_path] = (len(text_), None, text_.splitlines(True), fail_path)
        g = {"__name__": "generated"}
        try:
            exec(compile(text_, fail_path, "exec"), g)
            g["f0"](exc)
        except BaseException as e:
            caught = e
        mods = {}
    else:
        ga = store.run_module(path_a, src.text())
        mods = {path_a: ga}
        entry = ga["f0"]
        if sc["two_modules"]:
            outer = "def outer(fn, exc):\n    # calls into the other module\n    return fn(exc)\n"
            gb = store.run_module(path_b, outer)
            mods[path_b] = gb
            entry = lambda e, _f=ga["f0"], _o=gb["outer"]: _o(_f, e)
        try:
            entry(exc)
        except BaseException as e:
            caught = e
        fail_path = path_a
    if caught is not exc:
        res.violate("harness", "raise", "generated module raised %r instead of the planned exception" % (caught,))
        return
    tb = exc.__traceback__
    last = tb
    nframes = 0
    while last.tb_next:
        last = last.tb_next
        nframes += 1
    lineno = last.tb_lineno
    if lineno == len(src.lines):
        res.probe("raise_on_last_line")
    if lineno <= 6:
        res.probe("raise_on_first_lines")
    if sc["style"]["multiline_call"]:
        res.probe("multiline_statement")
    if src.markup:
        res.probe("markup_in_source")
    if src.badmarkup:
        res.probe("bad_markup_in_source")
    if sc["recursion"]:
        res.probe("folded_recursion")
    msg = str(exc)
    if "<" in msg:
        res.probe("markup_in_message")

    # ---- inject the source fault (after the failure, before rendering) ------------------------
    if fault not in (None, "exec", "exec_linecache"):
        nl = len(src.lines)
        if fault == "truncate_before":
            f = ("truncate", max(0, lineno - 2))
        elif fault == "truncate_inside":
            f = ("truncate", lineno)
        elif fault == "truncate_after":
            f = ("truncate", min(nl, lineno + 1))
        elif fault == "replace":
            f = ("replace", "# this file was rewritten\nx = 1\n" + "y = 2\n" * r.randint(0, 40))
        else:
            f = fault
        res.probe("fault_" + (f if isinstance(f, str) else f[0]))
        store.inject(path_a, f, mods[path_a])
        if sc["two_modules"] and r.chance(0.5):
            store.inject(path_b, f if isinstance(f, str) else ("truncate", 1), mods[path_b])

    # ---- an earlier report in the same process --------------------------------------------------
    if sc.get("prior_exc"):
        pexc = srcgen.make_exception(sc["prior_exc"])
        try:
            raise pexc
        except BaseException as e_:
            pexc = e_
        pfm = AnsiFormatter() if sc["ansi"] else PlainFormatter()
        pio = IO(Input(SimInputStream(log, [])), Output(SimOutputStream("pout", log, ansi=sc["ansi"]), pfm),
                 Output(SimOutputStream("perr", log, ansi=sc["ansi"]), pfm))
        if sc.get("io_kind") == "buffered":
            from clikit.io import BufferedIO
            pio = BufferedIO()
        try:
            ExceptionTrace(pexc).render(pio, sc.get("prior_simple", False))
        except Exception as e_:
            res.violate("render_raises", "prior_render:" + type(e_).__name__, "an earlier rendering raised %s: %s" % (type(e_).__name__, str(e_)[:100]))
        res.probe("prior_render")
    # ---- render -------------------------------------------------------------------------------
    out = SimOutputStream("out", log, ansi=sc["ansi"], utf8=sc["utf8"])
    err = SimOutputStream("err", log, ansi=sc["ansi"], utf8=sc["utf8"])
    fm = AnsiFormatter() if sc["ansi"] else PlainFormatter()
    if sc.get("io_kind") == "real":
        # clikit's own StreamOutputStream over a text file whose encoding gives the UTF-8 answer
        from ..realstream import RealStreamOutput, SimFile
        enc = ("utf-8" if sc["src_seed"] % 3 else "no-such-codec") if sc["utf8"] else ("ascii", "latin-1", "cp1252")[sc["src_seed"] % 3]
        out = RealStreamOutput(SimFile("out", log, encoding=enc, strict=False), sc["ansi"])
        err = RealStreamOutput(SimFile("err", log, encoding=enc, strict=False), sc["ansi"])
        res.probe("real_stream_" + enc)
    io = IO(Input(SimInputStream(log, [])), Output(out, fm), Output(err, fm))
    if sc.get("io_kind") == "buffered":
        # clikit's own BufferedIO with the formatter it builds for itself
        from clikit.io import BufferedIO
        io = BufferedIO(supports_utf8=sc["utf8"])
        out.data = io.fetch_output
        err.data = io.fetch_error
        res.probe("buffered_io")
    io.set_verbosity(sc["verbosity"])
    if sc.get("err_verbosity") is not None and sc["err_verbosity"] != sc["verbosity"]:
        io.error_output.set_verbosity(sc["err_verbosity"])
        res.probe("error_output_with_another_verbosity")
    if sc.get("custom_style"):
        from clikit.api.formatter import Style
        io.output.formatter.add_style(Style("warning").fg("magenta").underlined())
        res.probe("style_registered_by_the_application")
    if sc["verbosity"] == 4:
        res.probe("debug_verbosity")
    trace = ExceptionTrace(exc)
    ignore_kind = sc["ignore"]
    if ignore_kind == "none":
        trace.ignore_files_in("^/nowhere/")
    elif ignore_kind == "some":
        trace.ignore_files_in("^" + re.escape(base + "vendor/"))
    elif ignore_kind == "all":
        trace.ignore_files_in("^" + re.escape(PREFIX))
    if sc["simple"]:
        res.probe("simple_mode")
    pre_len = 0
    if sc.get("pre_output"):
        io.write_line(sc["pre_output"])
        pre_len = len(strip_ansi(out.data()))
        res.probe("style_left_open_on_the_io_before")
        res.fault("io_with_open_style")
    import clikit.ui.components.exception_trace as et_mod
    from ..simenv import cwd_removed
    try:
        with cwd_removed(et_mod, bool(sc.get("cwd_gone"))) as cwd_hits:
            trace.render(io, sc["simple"])
        if cwd_hits[0]:
            res.fault("working_directory_removed", cwd_hits[0])
            res.probe("report_without_working_directory")
    except Exception as e:
        import traceback
        tbs = traceback.extract_tb(e.__traceback__)
        where = "%s:%s" % (tbs[-1].filename.split("/")[-1], tbs[-1].name) if tbs else "?"
        res.violate("render_raises", "%s@%s" % (type(e).__name__, where),
                    "render raised %s: %s (fault %s, verbosity %d, simple %r)" % (type(e).__name__, str(e)[:120], fault, sc["verbosity"], sc["simple"]))
        log.add("render_raised", type(e).__name__)
        return
    text = strip_ansi(out.data())[pre_len:]
    if err.data():
        log.add("stderr", err.data()[:80])
    log.add("rendered", len(text))
    res.steps = nframes + 1
    res.states.add((fault, sc["verbosity"], sc["simple"], sc["utf8"], sc["ansi"], ignore_kind))
    res.nontrivial = nframes >= 1 or fault is not None

    # ---- every class: name and message --------------------------------------------------------
    ntext = _norm(text)
    if not sc["simple"]:
        name = type(exc).__name__
        if name not in text:
            res.violate("name_missing", "full", "class name %r not in the rendering %r" % (name, text[:200]))
    plain_msg = not _STYLE_TAG.search(msg) and "\\<" not in msg
    if plain_msg and "<" in msg:
        res.probe("angle_bracket_words_in_message")
    for line in msg.split("\n"):
        # a message without style markup is shown as it is - words in angle brackets included
        want, hay = (_ws(line), _ws(text)) if plain_msg else (_norm(line), ntext)
        if want and want not in hay:
            res.violate("message_missing", "simple" if sc["simple"] else "full",
                        "message line %r not in the rendering (%r ...)" % (line[:80], text[:300]))
            break
    if sc["simple"]:
        return

    # ---- fault-free class: the snippet ----------------------------------------------------------
    if fault is None:
        _check_snippet(sc, res, text, src, lineno, fail_path)
    elif fault == "exec_linecache" and _has_snippet(text, lineno):
        # no file to read: nothing says a snippet must be shown - but one that is shown must be true
        res.probe("snippet_without_a_file")
        _check_snippet(sc, res, text, src, lineno, fail_path)
    # ---- frame listing and the ignore filter ---------------------------------------------------
    if fault in (None,) and sc["verbosity"] >= 1:
        _check_listing(sc, res, text, ignore_kind, nframes)
    # ---- second rendering with another ignore pattern -------------------------------------------
    k2 = sc.get("ignore2")
    if k2 is not None and fault is None:
        u2 = (not sc["utf8"]) if sc.get("utf8_flip2") else sc["utf8"]
        out2 = SimOutputStream("out2", log, ansi=sc["ansi"], utf8=u2)
        err2 = SimOutputStream("err2", log, ansi=sc["ansi"], utf8=u2)
        io2 = IO(Input(SimInputStream(log, [])), Output(out2, fm), Output(err2, fm))
        v2 = sc.get("verbosity2", sc["verbosity"]) if sc.get("same_trace") else sc["verbosity"]
        io2.set_verbosity(v2)
        # either a fresh trace object, or the SAME object re-rendered at another verbosity
        trace2 = trace if sc.get("same_trace") else ExceptionTrace(exc)
        if sc.get("same_trace"):
            res.probe("same_trace_object_rendered_again")
        if not (sc.get("same_trace") and k2 == sc["ignore"]):
            # (the same object with the same pattern is simply rendered again, at another verbosity)
            trace2.ignore_files_in({"none": "^/nowhere/", "some": "^" + re.escape(base + "vendor/"), "all": "^" + re.escape(PREFIX)}[k2])
        try:
            trace2.render(io2, False)
        except Exception as e:
            res.violate("render_raises", "second_render:" + type(e).__name__, "second rendering raised %s: %s" % (type(e).__name__, str(e)[:100]))
            return
        text2 = strip_ansi(out2.data())
        res.probe("second_render_other_ignore")
        if sc.get("utf8_flip2"):
            res.probe("second_render_other_utf8")
            res.fault("utf8_support_changes_between_renderings")
            # a stream that cannot show them must not be sent the renderer's own non-ASCII symbols
            if not u2 and not any(ch in src.text() + msg for ch in "\u2192\u2502"):
                for ch in "\u2192\u2502":
                    if ch in text2:
                        res.violate("snippet", "second_render:symbols", "the stream does not support UTF-8 but the rendering uses %r: %r" % (ch, [l for l in text2.split("\n") if ch in l][:2]))
                        break
        if type(exc).__name__ not in text2:
            res.violate("name_missing", "second_render", "class name missing in the second rendering")
        if v2 >= 1:
            _check_listing(dict(sc, verbosity=v2), res, text2, k2, nframes, where="second_render:")


_SNIP = re.compile(r"^\s*(?P<mark>[→>])?\s*(?P<no>\d+)(?P<delim>[│|]) ?(?P<code>.*)$")


def _has_snippet(text, lineno):
    lines = text.split("\n")
    hdr = None
    for i, l in enumerate(lines):
        if re.match(r"^\s*at .*:%d in " % lineno, l):
            hdr = i
    if hdr is None:
        return False
    # (for a frame without source the unchanged report prints one empty numbered line: no code shown)
    for l in lines[hdr + 1:]:
        m = _SNIP.match(l)
        if m and m.group("code").strip():
            return True
        if not m and l.strip():
            return False
    return False


def _check_snippet(sc, res, text, src, lineno, fail_path):
    lines = text.split("\n")
    # the snippet follows the "at <file>:<line> in <function>" header
    hdr = None
    for i, l in enumerate(lines):
        if re.match(r"^\s*at .*:%d in " % lineno, l):
            hdr = i
    if hdr is None:
        res.violate("snippet", "header", "no 'at file:%d in function' header in %r" % (lineno, text[-400:]))
        return
    snip = []
    for l in lines[hdr + 1:]:
        m = _SNIP.match(l)
        if not m:
            if l.strip() == "" and not snip:
                continue
            break
        snip.append(m)
    if not snip:
        res.violate("snippet", "missing", "no numbered code lines after the header (failing line %d of %d)" % (lineno, len(src.lines)))
        return
    nums = [int(m.group("no")) for m in snip]
    if nums != list(range(nums[0], nums[0] + len(nums))):
        res.violate("snippet", "numbering", "line numbers %r are not consecutive" % nums)
        return
    marked = [int(m.group("no")) for m in snip if m.group("mark")]
    if marked != [lineno]:
        res.violate("snippet", "marker", "marked lines %r, failing line is %d" % (marked, lineno))
    want_arrow, want_delim = ("→", "│") if sc["utf8"] else (">", "|")
    for m in snip:
        if m.group("delim") != want_delim or (m.group("mark") and m.group("mark") != want_arrow):
            res.violate("snippet", "symbols", "utf8=%r but snippet uses %r / %r" % (sc["utf8"], m.group("mark"), m.group("delim")))
            break
    nl = len(src.lines)
    lo, hi = max(1, lineno - 4), min(nl, lineno + 4)
    if nums[0] != lo or nums[-1] < min(hi, nl) - 1:
        # the window is +-4 lines clipped to the file (a trailing empty line may be dropped)
        res.violate("snippet", "window", "snippet shows lines %d..%d, failing line %d of %d" % (nums[0], nums[-1], lineno, nl))
    for m in snip:
        n = int(m.group("no"))
        if n > nl or n in src.multi or n in src.markup:
            continue
        want = src.lines[n - 1].rstrip()
        got = m.group("code").rstrip()
        if got != want:
            res.violate("snippet", "verbatim", "line %d shown as %r, source has %r" % (n, got, want))
            break


_FRAME = re.compile(r"^\s*(?P<no>\d+|\.\.\.)\s+(?P<path>\S+):(?P<line>\d+) in (?P<fn>\S+)\s*$")


def _check_listing(sc, res, text, ignore_kind, nframes, where=""):
    lines = text.split("\n")
    if "Stack trace:" not in text:
        if nframes >= 1 and ignore_kind != "all" and not (ignore_kind == "some" and sc["two_modules"] and nframes <= 1):
            if ignore_kind in (None, "none"):
                res.violate("listing", where + "missing", "verbose rendering of %d frames has no stack listing" % (nframes + 1))
        return
    paths = [m.group("path") for m in (_FRAME.match(l) for l in lines) if m]
    paths = [p for p in paths if p.startswith(PREFIX)]  # the harness's own calling frame is not under test
    debug = sc["verbosity"] == 4
    if ignore_kind == "some" and sc["two_modules"]:
        res.probe("ignored_frames")
        has_vendor = any("vendor/lib_mod.py" in p for p in paths)
        if debug and not has_vendor:
            res.violate("listing", where + "ignored_missing_at_debug", "debug verbosity must list frames under the ignored path: %r" % paths)
        if not debug and has_vendor:
            res.violate("listing", where + "ignored_shown", "frames under the ignored path are listed below debug verbosity: %r" % paths)
    if ignore_kind == "all" and not debug and paths:
        res.violate("listing", where + "ignored_shown", "every frame is under the ignored path, listing shows %r" % paths)
