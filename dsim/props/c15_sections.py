"""C15 - section outputs keep the screen equal to the stacked section contents.

System: real Output.section / SectionOutput / formatter; simulated: output stream, terminal
emulator on its far side, COLUMNS.  History property over shared mutable state (the section list);
no stream faults are injected (the statement says nothing about them).
"""
import os

from ..harness import HarnessError, Result
from ..streams import EventLog, SimOutputStream
from ..term import Screen, UnknownSequence, wrap_rows

PROP = "C15"
LEVEL = "exploration"
RUNS = {"quick": 100000, "thorough": 3000000}
OPS_KEYS = ("ops",)
INFO = {
    "rule": "seeded histories (<= 40 operations) of create / write_line / write / overwrite / clear() / "
            "clear(n) over 1-3 sections of one output, terminal width from {8,12,20,40}, line lengths below, "
            "at, just above and more than twice the width, styled text, output indentation 0-4, optional "
            "plain lines before the first section; ANSI and non-ANSI classes; non-trivial = >= 3 operations "
            "that reached the stream with >= 2 sections or a wrapped line; distinct = distinct event-log digests",
    "states_measure": "(width, per-section tuple of row counts) shapes seen after an operation",
    "components_real": ["clikit.api.io.section_output.SectionOutput", "clikit.api.io.output.Output",
                        "clikit.formatter.AnsiFormatter/PlainFormatter", "clikit.utils.terminal.Terminal (COLUMNS path)"],
    "components_stubbed": ["OutputStream (simulated)", "terminal (emulator)", "COLUMNS"],
    "assumptions": [
        "xterm deferred auto-wrap: a line of exactly `width` cells followed by LF occupies one row",
        "clear(n) is generated with 1 <= n <= number of logical lines of the section",
        "writing to the parent output after sections exist is excluded (statement is about sections)",
        "non-ANSI class: the newline rule is asserted for write_line/overwrite only",
    ],
}
EXPECTED_PROBES = ("wrapped_line", "exact_width_line", "clear_n_with_wrapped", "clear_middle_section",
                   "overwrite_upper_section", "three_sections", "styled_line", "indented_section",
                   "real_stream_output", "style_added_at_run_time", "flagged_write", "clear_n_beyond_content")

WORDS = ["", "a", "ok", "<info>done</info>", "<comment>x</comment><b>y</b>", "état"]


def _line(w, width):
    k = w.weighted([("short", 5), ("exact", 2), ("over", 2), ("long", 1), ("empty", 1), ("styled", 2), ("typographic", 1)])
    if k == "typographic":
        # one-cell characters outside ASCII (ellipsis, dashes, quotes) in a line of exactly / almost the width
        n = w.pick([width, width, width - 1, 2 * width])
        body = list("y" * n)
        for _ in range(w.randint(1, 3)):
            body[w.randrange(n)] = w.pick(["\u2026", "\u2014", "\u201c", "\u201d", "\u2019", "\u00e9"])
        return "".join(body)
    if k == "short":
        return "s" * w.randint(1, max(1, width - 2))
    if k == "exact":
        return "e" * width
    if k == "over":
        return "o" * (width + w.randint(1, 3))
    if k == "long":
        return "L" * (2 * width + w.randint(1, width))
    if k == "empty":
        return ""
    n = w.pick([3, width - 1, width, width + 2])
    body = "t" * max(1, n)
    return "<info>%s</info>" % body if w.chance(0.5) else "<b>%s</b><comment>%s</comment>" % (body[:len(body) // 2] or "t", body[len(body) // 2:] or "u")


def gen(S, tier):
    c = S("config")
    width = c.pick([8, 12, 20, 40])
    from ..simenv import gen_env
    cfg = {"width": width, "term_env": gen_env(c, width), "ansi": c.chance(0.85), "forced": c.chance(0.2),
           # an ANSI-capable stream behind a formatter that disables decoration (tty + --no-ansi)
           "plain_formatter": c.chance(0.12),
           # clikit's own StreamOutputStream over a simulated text file (what is not flushed is not on screen)
           "real_stream": c.chance(0.25), "encoding": c.pick(["utf-8", "utf-8", "cp1252", "latin-1", "ascii"]),
           "pre": [("p" * c.randint(1, width + 3)) for _ in range(c.randint(0, 2))],
           "indent": c.pick([0, 0, 0, 1, 2, 4])}
    w = S("workload")
    ops = [["new"]]
    nsec = 1
    wt = {"new": w.pick([1, 2]), "write_line": w.pick([4, 8]), "write": w.pick([0, 2]),
          "overwrite": w.pick([1, 3]), "clear": w.pick([1, 2]), "clear_n": w.pick([0, 1, 3]),
          "add_style": w.pick([0, 0, 1])}
    styles_added = 0
    for _ in range(w.randint(1, 40 if tier == "thorough" else 25)):
        k = w.weighted(list(wt.items()))
        if k == "new":
            if nsec < 3:
                ops.append(["new"])
                nsec += 1
            continue
        if k == "add_style":
            # a style registered at run time, used by later lines (tag longer than its effect on the row count)
            styles_added += 1
            ops.append(["add_style", "warn%d" % styles_added])
            continue
        sid = w.randrange(nsec)
        if k in ("write_line", "write", "overwrite"):
            text = _line(w, width)
            if styles_added and w.chance(0.5):
                n = w.pick([3, width - 6, width - 1, width])
                text = "<warn%d>%s</warn%d>" % (styles_added, "w" * max(1, n), styles_added)
            if w.chance(0.25):
                text += "\n" + _line(w, width)
            op = [k, sid, text]
            if k != "overwrite" and w.chance(0.12):
                op.append(w.pick([1, 2, 4]))  # a verbosity flag above the output's (normal) verbosity
            ops.append(op)
        elif k == "clear":
            ops.append(["clear", sid, None])
        else:
            # (last entry: do not clamp the count to the number of lines the section holds)
            ops.append(["clear", sid, w.randint(1, 3), S("extension").chance(0.5)])
    return {"config": cfg, "ops": ops}


def simplify(sc):
    cfg = sc["config"]
    for k, v in (("indent", 0), ("pre", []), ("forced", False), ("plain_formatter", False)):
        if cfg.get(k, v) != v:
            yield dict(sc, config=dict(cfg, **{k: v}))
    for i, op in enumerate(sc["ops"]):
        if op[0] in ("write_line", "write", "overwrite"):
            t = op[2]
            cands = []
            if "\n" in t:
                cands += t.split("\n")
            if "<" in t:
                cands.append("x" * 3)
            if len(t) > 1 and "<" not in t and "\n" not in t:
                cands.append(t[:len(t) // 2])
                cands.append(t[:-1])
            for c in cands:
                yield dict(sc, ops=sc["ops"][:i] + [[op[0], op[1], c]] + sc["ops"][i + 1:])
            if op[0] != "write_line":
                yield dict(sc, ops=sc["ops"][:i] + [["write_line", op[1], t]] + sc["ops"][i + 1:])
        if op[0] == "clear" and op[2] and op[2] > 1:
            yield dict(sc, ops=sc["ops"][:i] + [["clear", op[1], op[2] - 1] + op[3:]] + sc["ops"][i + 1:])


def condition(sc, v):
    return {"ansi": (sc["config"]["ansi"] or sc["config"]["forced"]) and not sc["config"].get("plain_formatter")}


def execute(sc):
    from ..simenv import terminal_env
    cfg = sc["config"]
    # where the terminal width comes from: the COLUMNS variable, or the window size the (simulated)
    # kernel reports for the descriptors that are terminals / for the controlling terminal
    env = cfg.get("term_env") or {"columns": cfg["width"]}
    with terminal_env(env) as stats:
        try:
            res = _run(sc, cfg)
        except UnknownSequence as e:
            raise HarnessError("terminal emulator: %s" % e)
    if not env.get("columns"):
        res.probe("width_from_window_size_of_fd" if env.get("tty_fds") else "width_from_controlling_terminal")
    return res


def _split(content):
    if content == "":
        return []
    body = content[:-1] if content.endswith("\n") else content
    return body.split("\n")


def _run(sc, cfg):
    from clikit.api.io.output import Output
    from clikit.formatter import AnsiFormatter

    res = Result()
    log = EventLog()
    width = cfg["width"]
    screen = Screen(width)
    if cfg.get("real_stream"):
        from ..realstream import RealStreamOutput, SimFile
        # (a text file that replaces what it cannot encode would show '?': one cell either way)
        stream = RealStreamOutput(SimFile("out", log, screen=screen, encoding=cfg.get("encoding") or "utf-8", strict=False), cfg["ansi"])
        res.probe("real_stream_output")
    else:
        stream = SimOutputStream("out", log, ansi=cfg["ansi"], screen=screen)
    if cfg.get("plain_formatter"):
        from clikit.formatter import PlainFormatter
        fmtr = PlainFormatter()
        decorated = False
    else:
        fmtr = AnsiFormatter(forced=cfg["forced"])
        decorated = cfg["ansi"] or cfg["forced"]
    out = Output(stream, fmtr)
    vis = fmtr.remove_format
    for line in cfg["pre"]:
        out.write_line(line)
    pre_rows = []
    for line in cfg["pre"]:
        pre_rows.extend(wrap_rows(line, width))
    if cfg["indent"]:
        out.indent(cfg["indent"])  # sets the indentation for the rest of the run
    ind = " " * cfg["indent"]
    if cfg["indent"]:
        res.probe("indented_section")

    sections = []
    model = []  # per section: list of visible, indented, right-stripped lines
    seam_ops = 0
    wrapped_seen = False

    def expected_rows():
        rows = list(pre_rows)
        for s in sections:
            for line in _split(s.content):
                rows.extend(wrap_rows(vis(line).rstrip(), width))
        while rows and rows[-1] == "":
            rows.pop()
        return rows

    def total_rows():
        n = len(pre_rows)
        for s in sections:
            for line in _split(s.content):
                n += len(wrap_rows(vis(line).rstrip(), width))
        return n

    for op in sc["ops"]:
        k = op[0]
        res.steps += 1
        if k == "new":
            if len(sections) >= 3:
                continue
            sections.append(out.section())
            model.append([])
            log.add("new", len(sections))
            if len(sections) == 3:
                res.probe("three_sections")
            continue
        if k == "add_style":
            from clikit.api.formatter import Style
            fmtr.add_style(Style(op[1]).fg("yellow").bold())
            log.add("add_style", op[1])
            res.probe("style_added_at_run_time")
            continue
        sid = op[1]
        if sid >= len(sections):
            continue
        s = sections[sid]
        flags = op[3] if len(op) > 3 and k in ("write_line", "write") else None
        before_lines = [vis(x).rstrip() for x in _split(s.content)]
        n_before = len(stream.writes)
        log.add("op", k, sid, op[2])
        try:
            if k == "write_line":
                s.write_line(op[2], flags) if flags else s.write_line(op[2])
            elif k == "write":
                s.write(op[2], flags) if flags else s.write(op[2])
            if flags:
                res.probe("flagged_write")
            elif k == "overwrite":
                s.overwrite(op[2])
                if sid < len(sections) - 1:
                    res.probe("overwrite_upper_section")
            elif k == "clear":
                n = op[2]
                if n is not None:
                    if n > len(before_lines) and len(op) > 3 and op[3] and before_lines:
                        # more lines than the section holds: everything goes, like clear()
                        res.probe("clear_n_beyond_content")
                    else:
                        n = min(n, len(before_lines))
                    if n < 1:
                        continue
                    if any(len(x) > width for x in before_lines[-n:]):
                        res.probe("clear_n_with_wrapped")
                    s.clear(n)
                else:
                    s.clear()
                if 0 < sid < len(sections) - 1 or (sid < len(sections) - 1 and len(sections) > 1):
                    res.probe("clear_middle_section")
        except Exception as e:
            res.violate("op_raised", k, "%s: %s" % (type(e).__name__, e))
            break
        data = "".join(d for _, d in stream.writes[n_before:])
        if data:
            seam_ops += 1
        after_lines = [vis(x).rstrip() for x in _split(s.content)]
        if k in ("write_line", "write", "overwrite"):
            new = [(ind + vis(x)).rstrip() for x in op[2].split("\n")]
            if "<" in op[2]:
                res.probe("styled_line")
            for x in new:
                if len(x) > width:
                    res.probe("wrapped_line")
                    wrapped_seen = True
                elif len(x) == width:
                    res.probe("exact_width_line")

        if not decorated:
            # ---- non-ANSI class: plain appended lines, no control codes ----------------------
            if "\x1b" in data or "\r" in data:
                res.violate("plain_control", k, "control bytes on a non-ANSI output: %r" % data[:60])
            if k == "clear" and data:
                res.violate("plain_control", "clear", "clear wrote %r on a non-ANSI output" % data[:60])
            if flags:
                continue  # whether a flagged line is shown is the gate's business (C10)
            if k in ("write_line", "overwrite"):
                want = "\n".join((ind + x) if x else x for x in vis(op[2]).split("\n")) + "\n"
                if data != want:
                    res.violate("plain_line", k, "wrote %r, expected %r" % (data, want))
            elif k == "write":
                want = "\n".join((ind + x) if x else x for x in vis(op[2]).split("\n"))
                if data.rstrip("\n") != want.rstrip("\n"):
                    res.violate("plain_line", k, "wrote %r, expected %r (+ optional newline)" % (data, want))
            continue

        # ---- content vs reference model ------------------------------------------------------
        if flags:
            # whether a flagged write is shown is the gate's business (C10); whatever the section
            # decided, the screen must equal its content
            model[sid] = list(after_lines)
        elif k in ("write_line", "write"):
            model[sid] = model[sid] + new
        elif k == "overwrite":
            model[sid] = list(new)
        elif k == "clear" and op[2] is None:
            model[sid] = []
        if k == "clear" and op[2] is not None:
            ok = after_lines == before_lines[:len(after_lines)] and (len(after_lines) < len(before_lines) or not before_lines)
            if not ok:
                res.violate("content", "clear(n)", "content after clear(%d) is %r, before %r" % (op[2], after_lines, before_lines))
            model[sid] = list(after_lines)
        elif after_lines != model[sid]:
            res.violate("content", k, "section content %r, reference %r" % (after_lines, model[sid]))
            model[sid] = list(after_lines)

        # ---- the screen ------------------------------------------------------------------------
        want_rows = expected_rows()
        got_rows = screen.text_rows()
        if got_rows != want_rows:
            where = k if not (k == "clear" and op[2] is not None) else "clear(n)"
            res.violate("screen", where, "screen %r, stacked sections %r" % (got_rows[-8:], want_rows[-8:]))
            break  # the screen and the component's bookkeeping have parted; later steps add nothing
        where = k if not (k == "clear" and op[2] is not None) else "clear(n)"
        # the cursor rests on the row below the stacked sections (or, for an implementation that
        # delays the last newline, at the end of the last row)
        tr = total_rows()
        at_end_of_last = tr > 0 and screen.r == tr - 1 and (screen.pending or screen.c == len(screen.row_text(tr - 1)))
        if (screen.r, screen.c) != (tr, 0) and not at_end_of_last:
            res.violate("cursor", where, "cursor at row %d column %d after the operation, the stacked sections end at row %d" % (screen.r, screen.c, total_rows()))
            break
        if screen.clamped_up:
            res.violate("cursor", "clamped", "cursor-up ran into the top of the screen")
            break
        res.states.add((width, tuple(sum(len(wrap_rows(l, width)) for l in m) for m in model)))
    res.events = log.events
    res.nontrivial = seam_ops >= 3 and (len(sections) >= 2 or wrapped_seen)
    return res
