"""C11 - decoration changes only the look; indentation scopes nest and restore.

System: real IO / Output / SectionOutput / Indent / AnsiFormatter / PlainFormatter /
StyleConverter / Style / pastel.  Simulated: **twin streams** - the same operation history is
applied to an IO over an ANSI stream and to one over an undecorated stream.  Faults: indentation
scopes are left by exceptions - raised by the workload, or by the stream itself refusing the k-th
write (IOError) while scopes are open.
"""
import re

from ..harness import Result
from ..streams import EventLog, SimInputStream, SimOutputStream
from ..term import strip_ansi

PROP = "C11"
LEVEL = "exploration"
RUNS = {"quick": 50000, "thorough": 2000000}
OPS_KEYS = ("ops",)
INFO = {
    "rule": "seeded histories (<= 30 operations, nested) over twin IOs: writes through every public "
            "write*/error* method of IO, Output and a section output with messages from a balanced-markup "
            "grammar; style probes drawn from the 10 x 10 x 2^7 style table through the three ways of "
            "supplying a style; indentation scopes (io/output x set/increment, depth <= 4) left normally, by "
            "a raised exception or by an injected stream write error; non-trivial = >= 3 writes reached both "
            "twins or a scope was left by an exception; distinct = distinct event-log digests",
    "states_measure": "(indent out, indent err, scope depth) triples seen at a write + styles probed",
    "components_real": ["clikit.api.io.IO/Output/SectionOutput/Indent", "clikit.formatter.AnsiFormatter/PlainFormatter",
                        "clikit.adapter.style_converter.StyleConverter", "clikit.api.formatter.Style/StyleSet", "pastel"],
    "components_stubbed": ["OutputStream x2 per twin (simulated, with write-fault plan)", "InputStream (unused)"],
    "assumptions": [
        "messages come from a grammar in which tag stripping is unambiguous (see DESIGN 4/C11)",
        "raw methods are verbatim pass-throughs: newline rule and no-ESC rule only",
        "colour names map to SGR numbers as documented by pastel (white=97, default=39/49, light_gray is not a clikit colour)",
        "under nested styles only the innermost style's codes are required on the innermost text",
        "a visibly empty line may or may not carry indentation blanks",
    ],
}
EXPECTED_PROBES = ("scope_left_by_exception", "scope_left_by_write_error", "nested_scope_depth_3", "style_added_later",
                   "style_single_call", "style_registered", "raw_line_method", "section_plain", "section_ansi",
                   "multiline_message", "inline_style", "unknown_tag", "escaped_lt", "increment_below_zero")

COLORS = [None, "black", "red", "green", "yellow", "blue", "magenta", "cyan", "white", "default"]
FG = {"black": 30, "red": 31, "green": 32, "yellow": 33, "blue": 34, "magenta": 35, "cyan": 36,
      "white": 97, "default": 39}
BG = {"black": 40, "red": 41, "green": 42, "yellow": 43, "blue": 44, "magenta": 45, "cyan": 46,
      "white": 107, "default": 49}
ATTRS = ["bold", "dark", "italic", "underlined", "blinking", "inverse", "hidden"]
ATTR_SGR = {"bold": 1, "dark": 2, "italic": 3, "underlined": 4, "blinking": 5, "inverse": 7, "hidden": 8}
INLINE_OPT = {"bold": "bold", "dark": "dark", "italic": "italic", "underlined": "underline",
              "blinking": "blink", "inverse": "reverse", "hidden": "conceal"}
DEFAULT_TAGS = {"info": ("green", None, []), "comment": ("cyan", None, []), "question": ("blue", None, []),
                "error": ("red", None, ["bold"]), "b": (None, None, ["bold"]), "u": (None, None, ["underlined"]),
                "c1": ("cyan", None, []), "c2": ("yellow", None, [])}
WORDS = ["alpha", "beta gamma", "x", "  ", "Größe", "日本", "42", "a  b", "done.", "it's", "50%", "a=b;c", "&amp;"]

# (target, method, stream, is_line, is_raw)
METHODS = [
    ("io", "write", "out", False, False), ("io", "write_line", "out", True, False),
    ("io", "write_raw", "out", False, True), ("io", "write_line_raw", "out", True, True),
    ("io", "error", "err", False, False), ("io", "error_line", "err", True, False),
    ("io", "error_raw", "err", False, True), ("io", "error_line_raw", "err", True, True),
    ("out", "write", "out", False, False), ("out", "write_line", "out", True, False),
    ("out", "write_raw", "out", False, True), ("out", "write_line_raw", "out", True, True),
    ("err", "write", "err", False, False), ("err", "write_line", "err", True, False),
    ("sec", "write_line", "sec", True, False), ("sec", "write", "sec", False, False),
    ("sec", "overwrite", "sec", True, False),
    # clikit's BufferedIO, read back with fetch_* and emptied with clear_* after every operation
    ("buf", "write", "buf", False, False), ("buf", "write_line", "buf", True, False),
    ("buf", "error_line", "buferr", True, False), ("buf", "write_raw", "buf", False, True),
    ("buf", "error", "buferr", False, False),
]


def _style_spec(r):
    return [r.pick(COLORS), r.pick(COLORS), [a for a in ATTRS if r.chance(0.25)]]


def _msg(r, tags, depth=0):
    """Message tree."""
    out = []
    for _ in range(r.randint(1, 4 if depth == 0 else 2)):
        k = r.weighted([("text", 6), ("tag", 3 if depth < 3 else 0), ("inline", 1.5 if depth < 3 else 0),
                        ("unknown", 0.6), ("esc", 0.5), ("bare", 0.5), ("nl", 0.8), ("esc_tag", 0.3),
                        ("empty_tag", 0.2)])
        if k == "text":
            out.append(["text", r.pick(WORDS)])
        elif k == "tag":
            out.append(["tag", r.pick(tags), _msg(r, tags, depth + 1)])
        elif k == "inline":
            out.append(["inline", _style_spec(r), _msg(r, tags, depth + 1)])
        elif k == "unknown":
            out.append(["unknown", r.pick(["unknown", "foo", "br", "/nope"])])
        elif k == "esc":
            out.append(["esc"])
        elif k == "bare":
            out.append(["bare", r.pick([" < ", " > ", " <= 3 ", "> "])])
        elif k == "nl":
            out.append(["text", r.pick(["\n", "\n\n", "\nnext"])])
        elif k == "esc_tag":
            out.append(["esc_tag", r.pick(tags)])
        else:
            out.append(["tag", r.pick(tags), []])
    return out


def _inline(spec):
    fg, bg, attrs = spec
    parts = []
    if fg:
        parts.append("fg=" + fg)
    if bg:
        parts.append("bg=" + bg)
    if attrs:
        parts.append("options=" + ",".join(INLINE_OPT[a] for a in attrs))
    return ";".join(parts)


def raw_of(tree):
    s = ""
    for n in tree:
        k = n[0]
        if k == "text":
            s += n[1]
        elif k == "tag":
            s += "<%s>%s</%s>" % (n[1], raw_of(n[2]), n[1])
        elif k == "inline":
            spec = _inline(n[1])
            if spec:
                s += "<%s>%s</>" % (spec, raw_of(n[2]))
            else:
                s += raw_of(n[2])
        elif k == "unknown":
            s += "<%s>" % n[1]
        elif k == "esc":
            s += "\\<"
        elif k == "bare":
            s += n[1]
        elif k == "esc_tag":
            s += "\\<%s>" % n[1]
    return s


def visible_of(tree):
    s = ""
    for n in tree:
        k = n[0]
        if k == "text":
            s += n[1]
        elif k in ("tag", "inline"):
            s += visible_of(n[2])
        elif k == "unknown":
            s += "<%s>" % n[1]
        elif k == "esc":
            s += "<"
        elif k == "bare":
            s += n[1]
        elif k == "esc_tag":
            s += "<%s>" % n[1]
    return s


def esc_tag_in_style(tree, inside=False):
    """True if the message holds an escaped tag (\\<tag>) while a style is active."""
    for n in tree:
        if n[0] == "esc_tag" and inside:
            return True
        if n[0] == "tag" and esc_tag_in_style(n[2], True):
            return True
        if n[0] == "inline" and esc_tag_in_style(n[2], inside or bool(_inline(n[1]))):
            return True
    return False


def _gen_ops(w, tags, depth, budget, allow_fault_free=True):
    ops = []
    n = w.randint(1, 6 if depth else 10)
    for _ in range(n):
        if budget[0] <= 0:
            break
        budget[0] -= 1
        k = w.weighted([("write", 8), ("scope", 3 if depth < 4 else 0), ("probe", 1.5), ("raise", 0.5 if depth else 0),
                        ("try", 0.7 if depth < 3 else 0), ("add_style", 0.4)])
        if k == "write":
            m = w.randrange(len(METHODS))
            tree = _msg(w, tags)
            if METHODS[m][3]:  # line methods: message does not end in a newline of its own
                while tree and tree[-1][0] == "text" and tree[-1][1].endswith("\n"):
                    tree = tree[:-1]
                if not tree:
                    tree = [["text", "x"]]
                if raw_of(tree).endswith("\n") or visible_of(tree).endswith("\n"):
                    tree = tree + [["text", "x"]]  # e.g. a newline inside a trailing tag
            ops.append(["write", m, tree])
        elif k == "scope":
            tgt, mode, n = w.pick(["io", "io", "out", "err", "sec", "buf"]), w.pick(["set", "inc"]), w.pick([0, 1, 2, 3, 4, 7])
            if mode == "inc" and w.chance(0.15):
                n = -w.pick([1, 2, 5])  # a relative scope that takes indentation away (possibly more than there is)
            ops.append(["scope", tgt, mode, n, _gen_ops(w, tags, depth + 1, budget)])
        elif k == "probe":
            spec = _style_spec(w)
            prev = [o[2] for o in ops if o[0] in ("probe", "add_style")]
            if prev and w.chance(0.5):
                # a sibling of an earlier style: one attribute or one colour differs (what a cache
                # keyed too coarsely, or state shared between styles, would confuse)
                base = w.pick(prev)
                spec = [base[0], base[1], list(base[2])]
                which = w.randrange(3)
                if which == 0:
                    a = w.pick(ATTRS)
                    spec[2] = [x for x in spec[2] if x != a] if a in spec[2] else spec[2] + [a]
                else:
                    spec[which - 1] = w.pick(COLORS)
            ops.append(["probe", w.pick(["registered", "added", "single", "single_io", "single_out", "recoloured"]),
                        spec, w.pick(["plain text", "x", "Zeile", "1 < 2", "a <= b > c", "x <not a tag> y"]), w.randrange(4)])
        elif k == "raise":
            ops.append(["raise"])
        elif k == "try":
            ops.append(["try", _gen_ops(w, tags, depth + 1, budget)])
        else:
            ops.append(["add_style", "n%d" % w.randrange(3), _style_spec(w)])
    return ops


def gen(S, tier):
    c = S("config")
    extra = [["s%d" % i, _style_spec(c)] for i in range(c.randint(0, 3))]
    idx0 = getattr(S, "index", None)
    if idx0 is not None and (idx0 // 12800) % 3 == 0:
        k0 = idx0 % 12800
        extra.append(["tbl", [COLORS[k0 % 10], COLORS[(k0 // 10) % 10], [a for j, a in enumerate(ATTRS) if (k0 // 100) >> j & 1]]])
    cfg = {"extra_styles": extra, "plain_kind": c.pick(["nonansi_stream", "plain_formatter"]),
           "default_set": c.chance(0.7),
           # how a Style object is built: only the enabling setters; every setter with an explicit
           # boolean; or every attribute switched on first and the unwanted ones off again
           "style_build": c.weighted([("enable", 6), ("explicit", 2), ("on_off", 1)]),
           # another style set of the process (same tags with other styles, plus tags this
           # formatter does not know), created before or after the formatter under test
           "decoy": c.weighted([(None, 6), ("before", 2), ("after", 2)]), "decoy_same_class": c.chance(0.5)}
    tags = [t for t, _ in extra] + (list(DEFAULT_TAGS) if cfg["default_set"] else ["info", "comment", "error", "question"])
    w = S("workload")
    ops = _gen_ops(w, tags, 0, [30])
    # the whole style table (10 x 10 x 2^7 = 12800 styles) is spread over the runs of a batch, once
    # through each of the three ways of supplying a style: run i probes style i mod 12800
    idx = getattr(S, "index", None)
    if idx is not None:
        k = idx % 12800
        spec = [COLORS[k % 10], COLORS[(k // 10) % 10], [a for j, a in enumerate(ATTRS) if (k // 100) >> j & 1]]
        way = ["registered_fresh", "added", "single"][(idx // 12800) % 3]
        ops.insert(w.randint(0, len(ops)), ["probe", way, spec, "table", 0])
    f = S("faults")
    faults = {"out": [], "err": []}
    if f.chance(0.3):
        for name in ("out", "err"):
            if f.chance(0.6):
                faults[name] = sorted({f.randrange(12) for _ in range(f.randint(1, 2))})
    if f.chance(0.1):
        faults["flush"] = {name: sorted({f.randrange(14) for _ in range(f.randint(0, 2))}) for name in ("out", "err")}
    if f.chance(0.08):
        # the stream goes away for good (closed pipe): every write after the k-th fails
        faults["close_after"] = {f.pick(["out", "err"]): f.randrange(10)}
    return {"config": cfg, "ops": ops, "faults": faults}


def simplify(sc):
    if sc["faults"]["out"] or sc["faults"]["err"] or sc["faults"].get("close_after"):
        yield dict(sc, faults={"out": [], "err": []})
    if sc["faults"].get("flush") is not None:
        yield dict(sc, faults={k: v for k, v in sc["faults"].items() if k != "flush"})
    if sc["config"]["extra_styles"]:
        yield dict(sc, config=dict(sc["config"], extra_styles=sc["config"]["extra_styles"][:-1]))

    def rec(ops):
        for i, op in enumerate(ops):
            head, tail = ops[:i], ops[i + 1:]
            if op[0] in ("scope", "try"):
                body = op[-1]
                yield head + body + tail                      # unwrap
                for j in range(len(body)):
                    yield head + [op[:-1] + [body[:j] + body[j + 1:]]] + tail
                for sub in rec(body):
                    yield head + [op[:-1] + [sub]] + tail
                if op[0] == "scope" and op[3] not in (2,):
                    yield head + [[op[0], op[1], op[2], 2, body]] + tail
            elif op[0] == "write":
                tree = op[2]
                if len(tree) > 1:
                    for j in range(len(tree)):
                        yield head + [["write", op[1], tree[:j] + tree[j + 1:]]] + tail
                for j, n in enumerate(tree):
                    if n[0] in ("tag", "inline") and n[2]:
                        yield head + [["write", op[1], tree[:j] + n[2] + tree[j + 1:]]] + tail
                    if n[0] == "text" and len(n[1]) > 1 and n[1] != "x":
                        yield head + [["write", op[1], tree[:j] + [["text", "x"]] + tree[j + 1:]]] + tail
                if op[1] != 1:
                    yield head + [["write", 1, tree]] + tail
            elif op[0] == "probe":
                fg, bg, at = op[2]
                for spec in ([None, bg, at], [fg, None, at], [fg, bg, at[:-1]] if at else None):
                    if spec is not None and spec != op[2]:
                        yield head + [[op[0], op[1], spec, op[3], op[4]]] + tail

    for cand in rec(sc["ops"]):
        yield dict(sc, ops=cand)


def condition(sc, v):
    return {}


# --------------------------------------------------------------------------------------------
class _Boom(Exception):
    pass


_BUILD = ["enable"]


def _mk_style(tag, spec):
    from clikit.api.formatter import Style
    fg, bg, attrs = spec
    s = Style(tag)
    if fg:
        s.fg(fg)
    if bg:
        s.bg(bg)
    if _BUILD[0] == "explicit":
        for a in ATTRS:
            getattr(s, a)(a in attrs)
    elif _BUILD[0] == "on_off":
        for a in ATTRS:
            getattr(s, a)()
        for a in ATTRS:
            if a not in attrs:
                getattr(s, a)(False)
    else:
        for a in attrs:
            getattr(s, a)()
    return s


def _decoy_set(cfg):
    """A second, unrelated style set: must not influence the formatter under test."""
    from clikit.api.formatter import Style, StyleSet
    from clikit.formatter import DefaultStyleSet
    # of the other class than the set under test, or (decoy_same_class) another instance of the same class
    other = not cfg["default_set"]
    if cfg.get("decoy_same_class"):
        other = not other
    ss = DefaultStyleSet() if other else StyleSet()
    if cfg.get("decoy_same_class") and other and hasattr(ss, "remove"):
        for tag in ("c1", "question"):
            try:
                ss.remove(tag)      # this user does not want these default styles
            except Exception:
                pass
    for tag, spec in cfg["extra_styles"]:
        fg, bg, attrs = spec
        other = [bg or "magenta", fg or "white", [a for a in ATTRS if a not in attrs][:2]]
        ss.add(_mk_style(tag, other))
    for tag in ("foo", "unknown", "br", "n0", "p0", "tbl"):
        ss.add(Style(tag).fg("magenta").bold())
    return ss


def _codes(spec):
    fg, bg, attrs = spec
    out = set()
    if fg:
        out.add(FG[fg])
    if bg:
        out.add(BG[bg])
    for a in attrs:
        out.add(ATTR_SGR[a])
    return out


_SGR = re.compile(r"\x1b\[([0-9;]*)m")


def _sgr_runs(data):
    """[(text, active_codes_list)] - codes accumulated since the last reset."""
    runs = []
    active = []
    pos = 0
    for m in _SGR.finditer(data):
        if m.start() > pos:
            runs.append((data[pos:m.start()], list(active)))
        params = [int(p) if p else 0 for p in m.group(1).split(";")] if m.group(1) else [0]
        for p in params:
            if p == 0:
                active = []
            else:
                active.append(p)
        pos = m.end()
    if pos < len(data):
        runs.append((data[pos:], list(active)))
    return runs


class _Twin(object):
    def __init__(self, sc, decorated, log):
        from clikit.api.formatter import StyleSet
        from clikit.api.io import IO, Input, Output
        from clikit.formatter import AnsiFormatter, DefaultStyleSet, PlainFormatter

        cfg = sc["config"]
        self.decorated = decorated
        name = "A" if decorated else "P"
        ansi_stream = decorated or cfg["plain_kind"] == "plain_formatter"
        ca = sc["faults"].get("close_after") or {}
        self.streams = {
            "out": SimOutputStream(name + ".out", log, ansi=ansi_stream, fail_at=sc["faults"]["out"], close_after=ca.get("out")),
            "err": SimOutputStream(name + ".err", log, ansi=ansi_stream, fail_at=sc["faults"]["err"], close_after=ca.get("err")),
            "sec": SimOutputStream(name + ".sec", log, ansi=ansi_stream),
        }
        fl = sc["faults"].get("flush")
        if fl is not None:
            # clikit's own StreamOutputStream over a buffered text file; fault: a flush() is interrupted
            # (EINTR) - the text was accepted, stays in the file's buffer and goes out with the next flush
            from ..realstream import RealStreamOutput, SimFile
            for k_ in ("out", "err"):
                self.streams[k_] = RealStreamOutput(SimFile(name + "." + k_, log, flush_fail_at=fl.get(k_, ())), ansi_stream)

        from clikit.io import BufferedIO
        self.decoys = []

        def style_set():
            if cfg.get("decoy") == "before":
                self.decoys.append(_decoy_set(cfg))
            ss = DefaultStyleSet() if cfg["default_set"] else StyleSet()
            for tag, spec in cfg["extra_styles"]:
                ss.add(_mk_style(tag, spec))
            if cfg.get("decoy") == "after":
                self.decoys.append(_decoy_set(cfg))
            return ss

        def fmt(forced=False):
            if not decorated and cfg["plain_kind"] == "plain_formatter":
                return PlainFormatter(style_set())
            return AnsiFormatter(style_set(), forced) if forced else AnsiFormatter(style_set())

        self.fm = fmt()  # one formatter shared by out and err, as the default IO factory does
        self.io = IO(Input(SimInputStream(log, [])), Output(self.streams["out"], self.fm),
                     Output(self.streams["err"], self.fm))
        self.sec_parent = Output(self.streams["sec"], fmt())
        self.sec = self.sec_parent.section()
        # BufferedIO never reports a terminal: the decorated twin forces decoration in the formatter
        self.buf = BufferedIO("", fmt(forced=decorated))
        self.targets = {"io": self.io, "out": self.io.output, "err": self.io.error_output, "sec": self.sec, "buf": self.buf}
        self.records = []  # (path, kind, expected, got, info)

    def mark(self):
        m = {k: len(s.writes) for k, s in self.streams.items()}
        for k, s in self.streams.items():
            f_ = getattr(s, "file", None)
            if f_ is not None and f_.buffer:
                m["pending:" + k] = f_.buffer   # accepted by an earlier, interrupted operation
        return m

    def since(self, mark, stream):
        if stream == "buf":
            got = self.buf.fetch_output()
            self.buf.clear_output()
            return got
        if stream == "buferr":
            got = self.buf.fetch_error()
            self.buf.clear_error()
            return got
        data = "".join(d for _, d in self.streams[stream].writes[mark[stream]:])
        pend = mark.get("pending:" + stream)
        if pend and data.startswith(pend):
            data = data[len(pend):]
        return data


def _run_twin(sc, tw, res, count_probes):
    """Interprets the operation tree on one twin.  The reference model (indentation stack,
    expected text) is computed here, identically for both twins."""
    indent = {"out": 0, "err": 0, "sec": 0, "buf": 0, "buferr": 0}
    registered = dict()  # tag -> spec, styles the harness knows exactly
    if sc["config"]["default_set"]:
        for tag, (fg, bg, at) in DEFAULT_TAGS.items():
            registered[tag] = [fg, bg, list(at)]
    for tag, spec in sc["config"]["extra_styles"]:
        registered[tag] = spec
    depth = [0]
    stats = {"writes": 0}

    def exp_text(vis, ind, is_line):
        lines = vis.split("\n")
        return lines, ind, is_line

    def do(ops, path):
        for i, op in enumerate(ops):
            p = path + (i,)
            k = op[0]
            if k == "write":
                target, method, stream, is_line, is_raw = METHODS[op[1]]
                tree = op[2]
                raw, vis = raw_of(tree), visible_of(tree)
                ind = 0 if is_raw else indent[stream]
                mk = tw.mark()
                ok = True
                try:
                    getattr(tw.targets[target], method)(raw)
                except IOError:
                    ok = False
                    tw.records.append((p, "write_failed", None, None, (target, method)))
                    raise
                finally:
                    if ok:
                        got = tw.since(mk, stream)
                        tw.records.append((p, "write", (raw if is_raw else vis, ind, is_line, is_raw, target),
                                           got, (target, method, indent["out"], indent["err"], depth[0],
                                                 esc_tag_in_style(tree))))
                        stats["writes"] += 1
                        if target == "sec":
                            res.probe("section_ansi" if tw.decorated else "section_plain")
                        if target == "buf" and tw.decorated:
                            res.probe("buffered_io_cycle")
                            if got == "":
                                res.probe("buffered_io_empty_rendering")
                        if count_probes:
                            if "\n" in vis:
                                res.probe("multiline_message")
                            if is_raw and is_line:
                                res.probe("raw_line_method")
                            if "<fg=" in raw or "<bg=" in raw or "<options=" in raw:
                                res.probe("inline_style")
                            if any(n[0] == "unknown" for n in tree):
                                res.probe("unknown_tag")
                            if "\\<" in raw:
                                res.probe("escaped_lt")
            elif k == "scope":
                _, tgt, mode, n, body = op
                obj = tw.targets[tgt]
                keys = ["out", "err"] if tgt == "io" else ["buf", "buferr"] if tgt == "buf" else [tgt]
                saved = {x: indent[x] for x in keys}
                cm = obj.indent(n) if mode == "set" else obj.increment_indent(n)
                for x in keys:
                    indent[x] = n if mode == "set" else indent[x] + n
                    if count_probes and indent[x] < 0:
                        res.probe("increment_below_zero")
                depth[0] += 1
                if count_probes and depth[0] >= 3:
                    res.probe("nested_scope_depth_3")
                try:
                    with cm:
                        do(body, p)
                except _Boom:
                    if count_probes:
                        res.probe("scope_left_by_exception")
                        res.fault("scope_exit_by_exception")
                    raise
                except IOError:
                    if count_probes:
                        res.probe("scope_left_by_write_error")
                        res.fault("scope_exit_by_write_error")
                    raise
                finally:
                    depth[0] -= 1
                    for x in keys:
                        indent[x] = saved[x]
            elif k == "try":
                try:
                    do(op[1], p)
                except (_Boom, IOError):
                    pass
            elif k == "raise":
                raise _Boom()
            elif k == "add_style":
                st = _mk_style(op[1], op[2])
                tw.fm.add_style(st)
                registered[op[1]] = op[2]
            elif k == "probe":
                _, way, spec, text, pick = op
                expect = _codes(spec)
                if way == "registered_fresh":
                    # registered under the tag "tbl" when the formatter was constructed
                    if "tbl" not in registered:
                        continue
                    expect = _codes(registered["tbl"])
                    mk = tw.mark()
                    tw.io.output.write("<tbl>%s</tbl>" % text)
                    got = tw.since(mk, "out")
                    way = "registered"
                    if count_probes:
                        res.probe("style_registered")
                        res.probe("style_table_entry")
                elif way == "registered":
                    if not registered:
                        continue
                    tag = sorted(registered)[pick % len(registered)]
                    expect = _codes(registered[tag])
                    mk = tw.mark()
                    tw.io.output.write("<%s>%s</%s>" % (tag, text, tag))
                    got = tw.since(mk, "out")
                    if count_probes:
                        res.probe("style_registered")
                elif way == "added":
                    tag = "p%d" % (pick % 2)
                    tw.fm.add_style(_mk_style(tag, spec))
                    registered[tag] = spec
                    mk = tw.mark()
                    tw.io.error_output.write("<%s>%s</%s>" % (tag, text, tag))
                    got = tw.since(mk, "err")
                    if count_probes:
                        res.probe("style_added_later")
                elif way == "recoloured":
                    # one Style object: used once, then edited in place (as `style.fg("blue").bold()`
                    # does), then used again - the second use must show the edited style
                    first = [spec[1], spec[0], [a for a in ATTRS if a not in spec[2]][:3]]
                    st = _mk_style(None, first)
                    tw.fm.format(text, st)
                    if spec[0]:
                        st.fg(spec[0])
                    if spec[1]:
                        st.bg(spec[1])
                    for a in ATTRS:
                        getattr(st, a)(a in spec[2])
                    got = tw.fm.format(text, st)
                    spec = [spec[0] or first[0], spec[1] or first[1], spec[2]]
                    expect = _codes(spec)
                    way = "single"
                    if count_probes:
                        res.probe("style_object_edited_between_uses")
                else:
                    st = _mk_style(None, spec)
                    if way == "single":
                        got = tw.fm.format(text, st)
                    elif way == "single_io":
                        got = tw.io.format(text, st)
                    else:
                        got = tw.io.output.format(text, st)
                    if count_probes:
                        res.probe("style_single_call")
                ind_prefix = ""
                if way == "registered":
                    ind_prefix = " " * indent["out"]
                elif way == "added":
                    ind_prefix = " " * indent["err"]
                tw.records.append((p, "probe", (text, sorted(expect), way, ind_prefix), got, tuple(spec[:2]) + (tuple(spec[2]),)))

    try:
        do(sc["ops"], ())
    except (_Boom, IOError):
        pass
    # after everything: every indentation must be back to 0 - probe with a final line on each output
    for stream, tgt, method in (("out", "out", "write_line"), ("err", "err", "write_line"), ("sec", "sec", "write_line"),
                                ("buf", "buf", "write_line"), ("buferr", "buf", "error_line")):
        if stream in tw.streams:
            tw.streams[stream].fail_at = set()
            tw.streams[stream].close_after = None
            tw.streams[stream]._closed = False  # the harness reopens the pipe for the final indentation probe
            f_ = getattr(tw.streams[stream], "file", None)
            if f_ is not None:
                f_.flush_fail_at = set()
        mk = tw.mark()
        getattr(tw.targets[tgt], method)("END")
        tw.records.append((("end", stream), "write", ("END", 0, True, False, tgt), tw.since(mk, stream), (tgt, method, 0, 0, 0, False)))
    return stats


def _expected_variants(vis, ind, is_line):
    """Model text; a visibly empty line may or may not carry the indentation blanks."""
    lines = vis.split("\n")
    strict = "\n".join((" " * ind + x) if x else x for x in lines)
    return strict + ("\n" if is_line else ""), lines


def _matches_model(text, vis, ind, is_line):
    """text == model, allowing blanks-only on visibly empty lines."""
    want, lines = _expected_variants(vis, ind, is_line)
    if text == want:
        return True
    got_lines = text.split("\n")
    want_lines = want.split("\n")
    if len(got_lines) != len(want_lines):
        return False
    for g, w_ in zip(got_lines, want_lines):
        if g == w_:
            continue
        if w_ == "" and g.strip(" ") == "" and len(g) <= ind:
            continue
        return False
    return True


def execute(sc):
    res = Result()
    log = EventLog()
    _BUILD[0] = sc["config"].get("style_build", "enable")
    if _BUILD[0] != "enable":
        res.probe("style_built_with_explicit_off")
    if sc["config"].get("decoy"):
        res.probe("other_style_set_in_process")
    A = _Twin(sc, True, log)
    P = _Twin(sc, False, log)
    try:
        sa = _run_twin(sc, A, res, True)
        sp = _run_twin(sc, P, res, False)
    except Exception as e:
        import traceback
        res.violate("op_raised", "history", "%s: %s | %s" % (type(e).__name__, e, traceback.format_exc()[-400:]))
        res.events = log.events
        return res
    res.events = log.events
    for s in list(A.streams.values()) + list(P.streams.values()):
        if s.faults_fired:
            res.fault("stream_write_error", s.faults_fired)
        if getattr(getattr(s, "file", None), "faults_fired", 0):
            res.fault("flush_interrupted", s.file.faults_fired)

    ra = {r[0]: r for r in A.records}
    rp = {r[0]: r for r in P.records}
    for path in sorted(ra, key=repr):
        a = ra[path]
        p = rp.get(path)
        if p is None or a[1] != p[1]:
            res.violate("twin_divergence", "control_flow", "operation %r ran as %r on the ANSI twin and %r on the plain twin" % (path, a[1], p and p[1]))
            continue
        res.steps += 1
        if a[1] == "write":
            vis, ind, is_line, is_raw, target = a[2]
            meth = "%s.%s" % (a[4][0], a[4][1])
            ga, gp = a[3], p[3]
            sa_ = strip_ansi(ga)
            if a[4][5] and sa_ != gp and sa_.replace("\\<", "<").rstrip("\n") == gp.rstrip("\n"):
                # pastel keeps the backslash of an escaped tag when a style is active (the styled
                # chunks are joined before the unescaping pass): one narrow signature of its own
                res.violate("escaped_tag_in_style", "decorated", "%s: decorated rendering %r keeps the backslash, plain %r" % (meth, sa_[:120], gp[:120]))
                continue
            if target == "sec":
                # section outputs: cursor control interleaved (ANSI) and a newline after every write
                if "\x1b" in gp or "\r" in gp:
                    res.violate("plain_escape", meth, "undecorated section output wrote %r" % gp[:80])
                if is_line or a[4][1] == "write":
                    line_a = is_line or True
                    if not _matches_model(sa_, vis, ind, True):
                        res.violate("section_text", "ansi", "%s wrote %r (visible %r), model %r indent %d + newline" % (meth, ga[:120], sa_[:120], vis, ind))
                    if is_line and not _matches_model(gp, vis, ind, True):
                        res.violate("line_newline" if gp.rstrip("\n") == _expected_variants(vis, ind, False)[0] else "section_text", meth + "[plain]",
                                    "wrote %r, model %r indent %d + exactly one newline" % (gp[:120], vis, ind))
                res.states.add((a[4][2], a[4][3], a[4][4]))
                continue
            if is_raw:
                want = vis + ("\n" if is_line else "")
                for who, g in (("ansi", ga), ("plain", gp)):
                    if g != want:
                        oracle = "line_newline" if (is_line and g == vis) else "raw_verbatim"
                        res.violate(oracle, meth, "[%s twin] wrote %r, expected %r" % (who, g[:120], want[:120]))
                        break
                if "\x1b" in gp:
                    res.violate("plain_escape", meth, "escape byte on the undecorated output: %r" % gp[:80])
                continue
            if "\x1b" in gp:
                res.violate("plain_escape", meth, "escape byte on the undecorated output: %r" % gp[:80])
            if sa_ != gp:
                res.violate("twin_equality", meth, "decorated (escapes stripped) %r != plain %r" % (sa_[:160], gp[:160]))
            if not _matches_model(gp, vis, ind, is_line):
                want = _expected_variants(vis, ind, is_line)[0]
                if is_line and gp + "\n" == want or (is_line and not gp.endswith("\n")):
                    oracle, where = "line_newline", meth
                elif _matches_model(gp, vis, 0, is_line) or any(_matches_model(gp, vis, k, is_line) for k in range(0, 30)):
                    oracle, where = "indentation", meth if path[0] != "end" else "after_scopes:" + str(path[1])
                else:
                    oracle, where = "model_text", meth
                res.violate(oracle, where, "plain twin wrote %r, model %r (indent %d, line=%r)" % (gp[:160], want[:160], ind, is_line))
            elif not _matches_model(sa_, vis, ind, is_line):
                res.violate("model_text", meth + "[ansi]", "decorated twin shows %r, model %r" % (sa_[:160], _expected_variants(vis, ind, is_line)[0][:160]))
            res.states.add((a[4][2], a[4][3], a[4][4]))
        elif a[1] == "probe":
            text, expect, way, ind_prefix = a[2]
            ga, gp = a[3], p[3]
            res.states.add(("style",) + a[4])
            # what reaches an undecorated *stream* never carries an escape; the return value of
            # format() is undecorated only for the plain formatter (an AnsiFormatter behind a
            # non-ANSI stream is still a decorating formatter when asked to format a string)
            via_stream = way in ("registered", "added")
            if via_stream or sc["config"]["plain_kind"] == "plain_formatter":
                if "\x1b" in gp:
                    res.violate("plain_escape", "probe:" + way, "undecorated %s %r" % ("output wrote" if via_stream else "formatter returned", gp[:80]))
                if gp != ind_prefix + text:
                    res.violate("twin_equality", "probe:" + way, "plain rendering %r, text %r" % (gp, ind_prefix + text))
            elif strip_ansi(gp) != ind_prefix + text:
                res.violate("twin_equality", "probe:" + way, "rendering %r stripped is not %r" % (gp, ind_prefix + text))
            if strip_ansi(ga) != ind_prefix + text:
                res.violate("twin_equality", "probe:" + way, "decorated rendering %r stripped is not %r" % (ga, ind_prefix + text))
            runs = [(t, c) for t, c in _sgr_runs(ga) if text in t or t in text and t.strip()]
            got_codes = None
            for t, c in _sgr_runs(ga):
                if text in t:
                    got_codes = c
            if got_codes is None:
                res.violate("sgr_codes", way, "cannot find %r in %r" % (text, ga))
            elif sorted(got_codes) != list(expect):
                res.violate("sgr_codes", way, "style fg=%s bg=%s attrs=%s rendered with SGR %r, expected %r (%r)" % (
                    a[4][0], a[4][1], list(a[4][2]), got_codes, list(expect), ga))
            elif expect and not re.search(r"\x1b\[[0-9;]*m$", ga):
                # any SGR sequence after the text ends the style (0, or specific resets such as 39/22)
                res.violate("sgr_codes", way + ":reset", "styled text is not followed by a reset sequence: %r" % ga)
    res.nontrivial = sa["writes"] >= 3 or bool(res.faults)
    return res
