"""C05 - parsing is a pure function of command line, format and mode.

System: one long-lived real DefaultArgsParser driven through a seeded history of parse requests,
good ones and failing ones (the failing ones are the faults: a parse that raises half-way leaves
whatever it had collected - the in-process analogue of a crash followed by reuse).  Reference:
a parser constructed for the single request.  Inputs (argv list, raw-args token lists, format
listing) are snapshotted before and after.
"""
from .. import fmtgen
from ..harness import Result

PROP = "C05"
LEVEL = "exploration"
RUNS = {"quick": 120000, "thorough": 4000000}
OPS_KEYS = ("requests",)
INFO = {
    "rule": "seeded histories of 1-8 parse requests (format from a pool of 2-4 generated formats with "
            "0-2 base levels, token line spelled from an intended assignment and broken with p=0.3, "
            "leniency on/off) on ONE parser; non-trivial = >= 2 requests of which at least one earlier "
            "request set an option or failed; distinct = distinct event-log digests",
    "states_measure": "(format index, outcome class, lenient) sequences of a history",
    "components_real": ["clikit.args.DefaultArgsParser", "clikit.args.ArgvArgs", "clikit.args.StringArgs",
                        "clikit.api.args.Args", "clikit.api.args.format.*"],
    "components_stubbed": [],
    "assumptions": ["a freshly constructed DefaultArgsParser is the reference for 'what a fresh parser gives'"],
}
EXPECTED_PROBES = ("failed_parse_then_reuse", "option_set_then_other_format", "lenient_after_strict",
                   "same_format_twice", "string_args", "same_raw_args_object_again")


def gen(S, tier):
    c = S("config")
    pool = [fmtgen.gen_spec(c) for _ in range(c.randint(2, 4))]
    if c.chance(0.4):
        # a sibling of an existing format: same names, other flags / short names / aliases
        pool.append(fmtgen.sibling(c, c.pick(pool)))
    w = S("workload")
    f = S("faults")
    p_break = f.pick([0.0, 0.2, 0.4, 0.7])
    reqs = []
    for _ in range(w.randint(1, 8)):
        k = w.randrange(len(pool))
        toks, notes = fmtgen.gen_tokens(f, pool[k], p_break)
        kind = "argv"
        if w.chance(0.15) and all(t and all(ch.isalnum() or ch in "-=." for ch in t) for t in toks):
            kind = "string"
        reqs.append({"fmt": k, "tokens": toks, "lenient": w.chance(0.3), "raw": kind, "notes": notes,
                     "script": w.pick(["prog", "prog", "prog", "-c", "", "python -m tool", "/usr/bin/app", "/opt/tool/__main__.py", "__main__.py"])})
    # the caller parses the very same raw-arguments object again (same format), in the other mode or the same
    x = S("extension")
    for i in range(len(reqs) - 1, -1, -1):
        if x.chance(0.12):
            again = dict(reqs[i], again=True, notes=list(reqs[i]["notes"]) + ["same raw args object again"])
            if x.chance(0.7):
                again["lenient"] = not reqs[i]["lenient"]
            reqs.insert(i + 1, again)
    # a fraction of the histories is also compared, request by request, with a parse done in a process
    # of its own: a fresh interpreter state under another PYTHONHASHSEED (dsim.zygote peer)
    peer = S("config").chance(0.025)
    if peer:
        # defaults that are equal as Python values but of different types (1, 1.0, True), spread over
        # the formats of the pool, and requests that ask for them: what a value cache would confuse
        fam = c.pick([[1, True, 1.0], [0, False, 0.0]])
        for spec in pool:
            lv = spec
            while lv is not None:
                for o in lv["opts"]:
                    if o[2] & (fmtgen.O_OPT | fmtgen.O_REQ) and c.chance(0.6):
                        o[3] = c.pick(fam)
                lv = lv.get("base")
        # ... and a bare line per format (every required argument missing at once)
        for k in range(len(pool)):
            reqs.append({"fmt": k, "tokens": [], "lenient": False, "raw": "argv", "notes": ["bare"], "script": "prog"})
    return {"pool": pool, "requests": reqs, "peer": peer}


def simplify(sc):
    for i, rq in enumerate(sc["requests"]):
        if len(rq["tokens"]) > 1:
            for j in range(len(rq["tokens"])):
                c = dict(sc)
                nr = dict(rq, tokens=rq["tokens"][:j] + rq["tokens"][j + 1:])
                c["requests"] = sc["requests"][:i] + [nr] + sc["requests"][i + 1:]
                yield c
        if rq["lenient"]:
            c = dict(sc)
            c["requests"] = sc["requests"][:i] + [dict(rq, lenient=False)] + sc["requests"][i + 1:]
            yield c
    # simplify formats: drop options / args / base of pool entries
    for k, spec in enumerate(sc["pool"]):
        for key in ("opts", "args", "names"):
            for j in range(len(spec[key])):
                ns = dict(spec)
                ns[key] = spec[key][:j] + spec[key][j + 1:]
                c = dict(sc)
                c["pool"] = sc["pool"][:k] + [ns] + sc["pool"][k + 1:]
                yield c
        if spec.get("base") is not None:
            ns = dict(spec, base=spec["base"].get("base"))
            c = dict(sc)
            c["pool"] = sc["pool"][:k] + [ns] + sc["pool"][k + 1:]
            yield c


def _fmt_listing(fmt):
    """Public listing of a format: names, order, flags, defaults (deep)."""
    out = []
    for inc in (True, False):
        out.append(("names", inc, [(n.string, tuple(n.aliases)) for n in fmt.get_command_names(inc)]))
        out.append(("args", inc, [(a.name, a.flags, repr(a.default)) for a in fmt.get_arguments(inc).values()]))
        out.append(("opts", inc, [(o.long_name, o.short_name, o.flags, repr(o.default))
                                  for o in fmt.get_options(inc).values()]))
    return out


def _snapshot(args, fmt):
    snap = {
        "arguments_set": sorted(args.arguments(False).items(), key=lambda kv: kv[0]),
        "arguments_all": sorted(args.arguments(True).items(), key=lambda kv: kv[0]),
        "options_set": sorted(args.options(False).items(), key=lambda kv: kv[0]),
        "options_all": sorted(args.options(True).items(), key=lambda kv: kv[0]),
    }
    for name in fmt.get_arguments():
        snap["arg:" + name] = (repr(args.argument(name)), args.is_argument_set(name))
    for name in fmt.get_options():
        snap["opt:" + name] = (repr(args.option(name)), args.is_option_set(name))
    return repr(sorted(snap.items()))


def _outcome(parser, raw, fmt, lenient):
    try:
        args = parser.parse(raw, fmt, lenient)
    except Exception as e:
        return ("error", type(e).__name__, str(e))
    try:
        return ("ok", _snapshot(args, fmt))
    except Exception as e:  # reading the result back failed
        return ("snapshot_error", type(e).__name__, str(e))


def _raw(kind, tokens, script="prog"):
    from clikit.args import ArgvArgs, StringArgs
    if kind == "string":
        return StringArgs(" ".join(tokens)), None
    argv = [script] + list(tokens)
    return ArgvArgs(argv), argv


ME = "dsim.props.c05_parser_reuse"
HASHSEED_SENSITIVE = ("depends_on_process",)
try:
    import clikit.args as _ca  # noqa: imported with this module, hence preloaded in the peer interpreter
    import clikit.api.args.format as _caf  # noqa
except ImportError:  # pragma: no cover
    pass


def _preload():
    import clikit.args  # noqa  (so that the peer's per-request children need not import it)
    import clikit.api.args.format  # noqa


def ref_request(pool, k, rq):
    """ONE parse of ONE request by a new parser - run in a child of the peer interpreter."""
    from clikit.args import DefaultArgsParser
    fmt = fmtgen.build(pool[k])
    raw, _ = _raw(rq["raw"], list(rq["tokens"]), rq.get("script", "prog"))
    return _outcome(DefaultArgsParser(), raw, fmt, rq["lenient"])


def ref_history(pool, requests):
    """The whole history in ONE (pristine) process, a new parser for every request."""
    from clikit.args import DefaultArgsParser
    formats = [fmtgen.build(s) for s in pool]
    out = []
    for rq in requests:
        if rq["fmt"] >= len(formats):
            out.append(None)
            continue
        raw, _ = _raw(rq["raw"], list(rq["tokens"]), rq.get("script", "prog"))
        out.append(_outcome(DefaultArgsParser(), raw, formats[rq["fmt"]], rq["lenient"]))
    return out


def setup():
    from .. import zygote
    zygote.ensure()


def _far_checks(sc, res):
    """Every request as the ONLY parse of a pristine process - forked from this interpreter's zygote
    and from the peer interpreter (other hash seed) - and the history as a whole in one pristine
    process.  All three are pure functions of the scenario: nothing this worker did before matters."""
    from .. import zygote
    res.probe("compared_with_another_interpreter")
    hist = zygote.peer_reference(ME, "ref_history", sc["pool"], sc["requests"])
    for i, rq in enumerate(sc["requests"]):
        if hist[i] is None:
            continue
        near = tuple(zygote.reference(ME, "ref_request", sc["pool"], rq["fmt"], rq))
        far = tuple(zygote.peer_reference(ME, "ref_request", sc["pool"], rq["fmt"], rq))
        what = "request %d (format %d, tokens %r, lenient %r)" % (i, rq["fmt"], rq["tokens"], rq["lenient"])
        if near != far:
            res.violate("depends_on_process", "hash_seed", "%s gives %s as the only parse of a fresh process and %s as the only parse of a fresh interpreter started under another PYTHONHASHSEED" % (what, _short(near), _short(far)))
            return
        if tuple(hist[i]) != far:
            res.violate("depends_on_process", "earlier_parses", "%s gives %s as the only parse of a fresh process but %s (new parser!) after requests %r were parsed in that process" % (
                what, _short(far), _short(tuple(hist[i])), [r["tokens"] for r in sc["requests"][:i]]))
            return


def execute(sc):
    from clikit.args import DefaultArgsParser

    res = Result()
    log = res.events
    try:
        formats = [fmtgen.build(s) for s in sc["pool"]]
    except Exception as e:  # the shrinker produced an unbuildable format: not a verdict
        log.append(("unbuildable", type(e).__name__))
        return res
    P = DefaultArgsParser()
    earlier_dirty = False
    prev = []
    last_raw = None
    for i, rq in enumerate(sc["requests"]):
        if rq["fmt"] >= len(formats):
            continue
        res.steps += 1
        fmt = formats[rq["fmt"]]
        tokens = list(rq["tokens"])
        if rq["raw"] == "string":
            res.probe("string_args")
        script = rq.get("script", "prog")
        if rq.get("again") and last_raw is not None and last_raw[0] == (rq["fmt"], rq["raw"], tokens, script):
            raw, argv = last_raw[1]
            res.probe("same_raw_args_object_again")
        else:
            raw, argv = _raw(rq["raw"], tokens, script)
        last_raw = ((rq["fmt"], rq["raw"], tokens, script), (raw, argv))
        # wrapping an argv list as raw arguments must not alter the list either
        argv_before = ([script] + list(tokens)) if argv is not None else None
        tok_obj, opt_obj = raw.tokens, raw.option_tokens
        tok_before, opt_before = list(tok_obj), list(opt_obj)
        try:
            listing_before = _fmt_listing(fmt)
        except Exception as e:
            # the format listed itself when it was built; it no longer can: something altered it
            res.violate("input_mutated", "format", "format #%d can no longer be listed before request %d (%s: %s)" % (rq["fmt"], i, type(e).__name__, e))
            break

        got = _outcome(P, raw, fmt, rq["lenient"])

        # inputs untouched
        if argv is not None and argv != argv_before:
            res.violate("input_mutated", "argv", "argv list changed from %r to %r" % (argv_before, argv))
        if raw.tokens is not tok_obj or list(raw.tokens) != tok_before:
            res.violate("input_mutated", "raw.tokens", "tokens changed from %r to %r" % (tok_before, list(raw.tokens)))
        if raw.option_tokens is not opt_obj or list(raw.option_tokens) != opt_before:
            res.violate("input_mutated", "raw.option_tokens", "option tokens changed from %r to %r" % (opt_before, list(raw.option_tokens)))
        try:
            listing_after = _fmt_listing(fmt)
        except Exception as e:
            listing_after = ("unlistable", type(e).__name__, str(e))
        if listing_after != listing_before:
            res.violate("input_mutated", "format", "format listing changed by parse of %r%s" % (
                tokens, " (now %r)" % (listing_after,) if listing_after[0] == "unlistable" else ""))
            break

        # reference: a parser constructed for this one request, on fresh raw args
        raw2, _ = _raw(rq["raw"], tokens, script)
        want = _outcome(DefaultArgsParser(), raw2, fmt, rq["lenient"])
        log.append((i, rq["fmt"], rq["lenient"], got[0], got[1] if got[0] != "ok" else None))
        if got != want:
            if want[0] == "ok" and got[0] == "ok":
                where = "result_differs"
            elif want[0] == "ok":
                where = "fails_where_fresh_succeeds"
            elif got[0] == "ok":
                where = "succeeds_where_fresh_fails"
            else:
                where = "error_differs"
            res.violate("reuse_vs_fresh", where,
                        "request %d (format %d, tokens %r, lenient %r): reused parser gave %s, fresh parser %s" % (
                            i, rq["fmt"], tokens, rq["lenient"], _short(got), _short(want)))
        # probes / non-triviality
        if i > 0:
            if earlier_dirty:
                res.nontrivial = True
            if prev and prev[-1][2] == "error":
                res.probe("failed_parse_then_reuse")
                res.fault("failed_parse_before_reuse")
            if prev and prev[-1][0] == rq["fmt"]:
                res.probe("same_format_twice")
            if prev and prev[-1][3] and prev[-1][0] != rq["fmt"]:
                res.probe("option_set_then_other_format")
            if prev and rq["lenient"] and not prev[-1][1]:
                res.probe("lenient_after_strict")
        has_opt = any(t.startswith("-") and t not in ("-", "--") for t in tokens)
        if want[0] != "ok" or has_opt:
            earlier_dirty = True
        prev.append((rq["fmt"], rq["lenient"], want[0], has_opt))
    res.states.add(tuple((p[0], p[2], p[1]) for p in prev))
    if sc.get("peer") and not res.violations:
        _far_checks(sc, res)
    return res


def _short(o):
    if o[0] == "ok":
        return "OK " + o[1][:260]
    return "%s %s(%s)" % (o[0], o[1], o[2][:120])
