"""The process environment a terminal size is read from, simulated.

clikit's ``Terminal`` asks, in this order: the COLUMNS / LINES variables, the window size of file
descriptors 0, 1 and 2 (``ioctl(TIOCGWINSZ)``), the controlling terminal, and falls back to 80x25.
A scenario says what the world looks like::

    {"columns": 20}                                  COLUMNS is set (LINES is not)
    {"tty_fds": [2], "ctty": False, "cols": 20}      only stderr is a terminal; stdout/stdin are pipes
    {"tty_fds": [], "ctty": True, "cols": 20}        everything redirected, a controlling terminal exists
    {"tty_fds": [], "ctty": False}                   no terminal anywhere: the size is unknown

``terminal_env(spec)`` is a context manager that makes the kernel answer accordingly through every
door Python offers (``fcntl.ioctl``, ``os.get_terminal_size``, ``os.open(os.ctermid())``), so that code
that looks only through one of them is seen to get another answer.  ``known_width(spec)`` is what a
program that looks everywhere must find (None: unknown).
"""
import contextlib
import fcntl
import os
import struct
import termios

_FAKE_CTTY_FD = 987650


def known_width(spec):
    if spec.get("columns"):
        return spec["columns"]
    if spec.get("tty_fds") or spec.get("ctty"):
        return spec["cols"]
    return None


@contextlib.contextmanager
def terminal_env(spec):
    saved_env = {k: os.environ.get(k) for k in ("COLUMNS", "LINES")}
    real_ioctl, real_gts, real_open, real_close = fcntl.ioctl, os.get_terminal_size, os.open, os.close
    os.environ.pop("COLUMNS", None)
    os.environ.pop("LINES", None)
    if spec.get("columns"):
        os.environ["COLUMNS"] = str(spec["columns"])
    ttys = set(spec.get("tty_fds") or [])
    cols, rows = spec.get("cols", 80), spec.get("rows", 24)
    stats = {"ioctl": 0, "get_terminal_size": 0, "ctty_open": 0}

    def ioctl(fd, request, *a, **k):
        if request != termios.TIOCGWINSZ:
            return real_ioctl(fd, request, *a, **k)
        stats["ioctl"] += 1
        if fd in ttys or (fd == _FAKE_CTTY_FD and spec.get("ctty")):
            packed = struct.pack("hhhh", rows, cols, 0, 0)
            arg = a[0] if a else ""
            return packed[:len(arg)] if isinstance(arg, (str, bytes)) and len(arg) in (4, 8) else packed
        raise OSError(25, "simulated: Inappropriate ioctl for device")

    def get_terminal_size(fd=1):
        stats["get_terminal_size"] += 1
        if fd in ttys:
            return os.terminal_size((cols, rows))
        raise OSError(25, "simulated: Inappropriate ioctl for device")

    def open_(path, flags, *a, **k):
        if path == os.ctermid():
            stats["ctty_open"] += 1
            if spec.get("ctty"):
                return _FAKE_CTTY_FD
            raise OSError(6, "simulated: No such device or address", path)
        return real_open(path, flags, *a, **k)

    def close(fd):
        if fd == _FAKE_CTTY_FD:
            return None
        return real_close(fd)

    fcntl.ioctl, os.get_terminal_size, os.open, os.close = ioctl, get_terminal_size, open_, close
    try:
        yield stats
    finally:
        fcntl.ioctl, os.get_terminal_size, os.open, os.close = real_ioctl, real_gts, real_open, real_close
        for k, v in saved_env.items():
            if v is None:
                os.environ.pop(k, None)
            else:
                os.environ[k] = v


def gen_env(r, width):
    """A seeded world in which a program that looks everywhere finds ``width`` columns."""
    k = r.weighted([("columns", 6), ("fds", 3), ("ctty", 1)])
    if k == "columns":
        return {"columns": width}
    if k == "ctty":
        return {"tty_fds": [], "ctty": True, "cols": width}
    fds = r.pick([[2], [2], [0, 1, 2], [0], [1], [1, 2], [0, 2]])
    return {"tty_fds": fds, "ctty": r.chance(0.5), "cols": width}


class _OsWithoutCwd(object):
    """``os`` as a process sees it whose working directory was removed under it: ``getcwd`` fails."""

    def __init__(self, real, counter):
        self._real = real
        self._counter = counter

    def getcwd(self):
        self._counter[0] += 1
        raise FileNotFoundError(2, "No such file or directory")

    def __getattr__(self, name):
        return getattr(self._real, name)


@contextlib.contextmanager
def cwd_removed(module, enabled=True):
    """While active, ``module.os.getcwd()`` raises FileNotFoundError (the directory the program was
    started in no longer exists).  Yields a one-element list counting how often that was met."""
    hits = [0]
    if not enabled:
        yield hits
        return
    old = module.os
    module.os = _OsWithoutCwd(old, hits)
    try:
        yield hits
    finally:
        module.os = old
