#!/bin/bash
# Runs the repository's pinned suite with the verification guard OFF; prints the pytest summary.
unset CLIKIT_VERIF
cd /repo && exec /venv/bin/python -m pytest -ra -q -p no:cacheprovider --timeout=900 --continue-on-collection-errors "$@"
