"""Validates MANIFEST.json and every evidence file against the schemas (needs jsonschema: run with python3-vt)."""
import glob, json, sys
import jsonschema
ok = True
m = json.load(open("/verif/MANIFEST.json"))
jsonschema.validate(m, json.load(open("/root/.vp/MANIFEST.schema.json")))
es = json.load(open("/root/.vp/EVIDENCE.schema.json"))
ids = {c["property_id"] for c in m["checks"]} | {n["property_id"] for n in m.get("not_applicable", [])}
props = {json.loads(l)["id"] for l in open("/verif/properties.jsonl")}
if ids != props:
    print("MANIFEST does not cover", props ^ ids); ok = False
for c in m["checks"]:
    try:
        e = json.load(open(c["evidence_file"]))
        jsonschema.validate(e, es)
        assert e["property_id"] == c["property_id"] and e["level"] == c["level_claimed"]["category"], "id/level mismatch"
        print(c["property_id"], e["tier"], "evaluations", e["coverage"]["evaluations"], "distinct", e["coverage"]["distinct_nontrivial"], "violations", e.get("violations"))
    except Exception as ex:
        print("BAD", c["property_id"], ex); ok = False
sys.exit(0 if ok else 1)
