#!/bin/bash
# Everything that tests the machinery itself, in one go (hours): seeded breaking changes must still be
# caught, behaviour-preserving refactorings must stay silent, hand-written mutants must be caught.
cd "$(dirname "$0")/.."
echo "=== seeded recheck $(date)"; /venv/bin/python tools/seeded.py recheck; echo "seeded rc=$?"
echo "=== benign recheck $(date)"; /venv/bin/python tools/seeded.py recheck-benign; echo "benign rc=$?"
echo "=== mutants $(date)"; /venv/bin/python -B -m dsim.selftest.mutants; echo "mutants rc=$?"
echo "=== done $(date)"
