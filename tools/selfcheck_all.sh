#!/bin/bash
# Everything that tests the machinery itself, in one go (hours): seeded breaking changes must still be
# caught, behaviour-preserving refactorings must stay silent, hand-written mutants must be caught.
cd "$(dirname "$0")/.."
# order: what guards against false alarms first
echo "=== benign recheck $(date)"; /venv/bin/python tools/seeded.py recheck-benign; echo "benign rc=$?"
if [ -n "$THOROUGH_PCT" ]; then echo "=== thorough (${THOROUGH_PCT}% of the tier) $(date)"; tools/thorough_all.sh '' 4242 $THOROUGH_PCT; fi
echo "=== mutants $(date)"; /venv/bin/python -B -m dsim.selftest.mutants; echo "mutants rc=$?"
echo "=== seeded recheck $(date)"; /venv/bin/python tools/seeded.py recheck; echo "seeded rc=$?"
echo "=== done $(date)"
