"""Large determinism audit: digests of N run indexes computed in several fresh interpreters
(different PYTHONHASHSEED, different chunking / process count) must agree.
   /venv/bin/python tools/audit.py C19 2000 [tier]"""
import json, os, subprocess, sys
from concurrent.futures import ThreadPoolExecutor
VERIF = os.path.dirname(os.path.dirname(os.path.abspath(__file__)))
prop, n = sys.argv[1], int(sys.argv[2])
tier = sys.argv[3] if len(sys.argv) > 3 else "quick"

def run(idx, hashseed):
    env = dict(os.environ, PYTHONHASHSEED=str(hashseed), DSIM_CHILD="1")
    env.pop("PYTHONPYCACHEPREFIX", None)
    p = subprocess.run([os.path.join(VERIF, "check"), prop, tier, "--audit", ",".join(map(str, idx))],
                       env=env, stdout=subprocess.PIPE, stderr=subprocess.PIPE, universal_newlines=True)
    if p.returncode != 0:
        raise SystemExit("audit child failed: " + p.stdout[-500:] + p.stderr[-2000:])
    return json.loads(p.stdout.strip().splitlines()[-1])

def sweep(nproc, hashseed, reverse=False):
    idx = list(range(n))
    if reverse:
        idx.reverse()
    chunks = [idx[i::nproc] for i in range(nproc)]
    out = {}
    with ThreadPoolExecutor(nproc) as ex:
        for d in ex.map(lambda c: run(c, hashseed), chunks):
            out.update(d)
    return out

a = sweep(16, 0)
b = sweep(7, 12345, reverse=True)
c = sweep(3, 999)
bad = [k for k in a if a[k] != b.get(k) or a[k] != c.get(k)]
print("%s: %d executions compared across 3 configurations (16/7/3 processes, 3 hash seeds, both orders): %d mismatches %s"
      % (prop, len(a), len(bad), bad[:5]))
sys.exit(1 if bad else 0)
