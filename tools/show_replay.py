import json,sys,glob
for f in sorted(glob.glob(sys.argv[1])):
    d=json.load(open(f)); s=d['scenario']
    print('==',f.split('/')[-1])
    for n,e in enumerate(d.get('history') or []):
        print('  earlier scenario %d (same process):' % n, json.dumps(e)[:600])
    for k,v in s.items():
        if k=='config': print('  config', {a:b for a,b in v.items() if b not in (None,0,False,'-','>',[])})
        else: print(' ',k,json.dumps(v)[:1500])
    print('  ->',d['violation']['oracle'],d['violation']['where'],d['violation']['detail'][:400])
