#!/bin/bash
# Multi-seed soak of the quick tier: any VIOLATION / HARNESS-ERROR on the unchanged tree is a false alarm to fix.
#   tools/soak.sh "C04 C05 ..." "1 2 3 ..."
cd "$(dirname "$0")/.." || exit 2
export DSIM_OUT=${DSIM_OUT:-$(mktemp -d /tmp/dsim-soak-XXXX)}
for p in $1; do for s in $2; do
  out=$(./check $p quick --seed $s 2>&1); rc=$?
  echo "$p seed=$s rc=$rc $(echo "$out" | grep -c VIOLATION) violations; $(echo "$out" | grep '^property=' | cut -c1-160)"
  [ $rc -ne 0 ] && echo "$out" | grep -v KNOWN | head -8
done; done
rm -rf "$DSIM_OUT"
