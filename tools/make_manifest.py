"""Regenerates /verif/MANIFEST.json from the table below (only properties whose harness exists
are listed as checks; the rest of the claimed set is reported on stderr)."""
import json
import os
import sys

VERIF = os.path.dirname(os.path.dirname(os.path.abspath(__file__)))
sys.path.insert(0, VERIF)
from dsim.runner import PROPS  # noqa

TECH = "deterministic simulation with fault injection (seeded search over %s; executable reference model as oracle; ddmin-minimised replay files)"

CLAIMED = {
    "C04": ("fault_enumeration", "4/C04", "handler outcomes and crash points of scripted handler/listener actors, closed error stream, removed working directory",
            "Seeded runs of real ConsoleApplication.run with scripted handler and listener actors on simulated streams (or clikit's own StreamOutputStream over simulated text files of several encodings); the raise is injected at every step of each generated handler script (crash-point sweep), also out of the handler's own formatted write and after output that leaves a style open; earlier failing runs in the same process; a scenario that never returns is cut by a wall alarm and reported as a hang. Held on N runs = evidence, not proof.",
            "Trusts the actor scripts, the status reference model and the simulated streams; SystemExit/GeneratorExit are outside the statement."),
    "C05": ("exploration", "4/C05", "parse histories with failing parses as faults",
            "One long-lived parser driven through seeded histories of good and failing parses, each compared with a freshly constructed parser and with input snapshots.",
            "Trusts a fresh DefaultArgsParser as the reference; formats and token lines come from the harness generator."),
    "C06": ("exploration", "4/C06", "builder histories with rejected additions as faults",
            "Seeded builder histories over a colliding name pool stacked on 0-2 base levels, checked step by step against a reference format model, with snapshot comparison after every rejection; the same elements through the element-list constructor, one long-lived CommandConfig (rejected declarations included) and a command tree without application; base formats and a sibling builder must be unchanged by the stacking.",
            "Trusts the reference model written from the statement."),
    "C09": ("exploration", "4/C09", "switch placements x handler faults x stream tty-ness",
            "Seeded runs of a default-config application with a scripted handler; switches are inserted at seeded positions; oracle is a switch-effect model evaluated at the simulated streams.",
            "Placement space is sampled, not enumerated; precedence of contradictory switches is not asserted."),
    "C11": ("exploration", "4/C11", "write histories on twin ANSI/plain outputs with exceptional scope exits and stream write faults",
            "Same seeded operation history applied to an ANSI and a plain twin (IO, Output, section output, BufferedIO fetch/clear cycles); oracles: twin equality, ECMA-48 SGR table (styles built three ways, edited in place between uses, a decoy style set in the same process), indentation stack model, newline rule; scopes are left by exceptions including injected stream write errors and a closed stream.",
            "Messages come from a balanced-markup grammar; raw methods and section outputs are compared under the restrictions stated in DESIGN 4/C11."),
    "C12": ("exploration", "4/C12", "register/dispatch histories with raising and re-entrant listeners",
            "Seeded histories against an ordered-multiset reference model; listeners raise, register others or dispatch re-entrantly during a dispatch; an application-level class registers listeners through the configuration and dispatches by real runs (listeners stop, take the command over or resolve another command).",
            "Trusts the reference model; behaviour of a listener registered during a dispatch within that same dispatch is left open."),
    "C15": ("exploration", "4/C15", "section operation histories interpreted by a terminal emulator",
            "Seeded histories of create/write/overwrite/clear over 1-3 sections; after every operation the emulator's screen must equal the stacked section contents.",
            "Trusts the terminal emulator (xterm deferred-wrap semantics) and the public content property."),
    "C16": ("exploration", "4/C16", "call histories x virtual-clock schedules (stalls, jumps, skew, write latency)",
            "Seeded call histories under a virtual clock on ANSI/plain/section/quiet outputs; frames are parsed against the active format and replayed on a terminal emulator; throttle distances measured in virtual time.",
            "Trusts the emulator and the frame grammar derived from the format; bounds: <=60 operations per history, terminal wider than any frame."),
    "C17": ("exploration", "4/C17", "application/command-line histories with failed and help runs as faults, against a pristine forked reference process",
            "A reused application/style/component is compared run by run with a reference built in a child forked from a pristine zygote process.",
            "Trusts fork isolation; traceback text is compared after scrubbing addresses only."),
    "C18": ("fault_enumeration", "4/C18", "answer scripts with end-of-input injected after every prefix",
            "Seeded dialogues against a dialogue reference model, read through a simulated input stream or clikit's own StreamInputStream/StringInputStream; every script is also run with EOF after each prefix, a torn last line and an over-long line; a second ask on a fresh I/O (optionally over the same source), a closed standard output; non-termination is decided by a read budget.",
            "stty is stubbed as unreachable (line-reading path); trusts the dialogue model."),
    "C19": ("exploration", "4/C19", "thread schedules (seeded scheduler owning both threads), write latency, short writes, one failing write, clock jumps, raising bodies",
            "Real spinner and caller threads are parked and released one at a time by a seeded scheduler at every write/sleep/event/thread operation (optionally every source line) under a virtual clock; screen oracle after every write; liveness by step caps.",
            "Pre-emption granularity is seams plus source lines of progress_indicator.py, not bytecodes."),
    "C20": ("fault_enumeration", "4/C20", "source-store faults (missing, unreadable, truncated, replaced, exec'd, known to linecache only), removed working directory x exceptions x verbosity",
            "Generated modules served from an in-memory source store; each workload is rendered under each source-fault kind; oracle: render total, class name and message present, snippet grammar in the fault-free class; earlier renderings and earlier output on the same I/O (styles left open), a second rendering with another ignore pattern, verbosity or UTF-8 answer, clikit's BufferedIO and StreamOutputStream over files of several encodings.",
            "Trusts the source store seam (crashtest.frame.open + loader + linecache)."),
}

NA = {
    "C01": "pure function of (tokens, format, mode): no schedule, clock, failing party or carried state (the carried-state aspect is C05); seeded input generation would be property-based testing, not simulation",
    "C02": "exception class of one parse call is a pure function of (tokens, format, mode); the mutations are edits of the input, not environmental faults",
    "C03": "resolve_command is a pure function of (command tree, tokens); nothing survives a resolution (the help resolver's leniency toggle is checked under C17)",
    "C07": "constructor outcome/predicates are a pure function of a flag word and a name; a few thousand words, decided by complete enumeration (model checking), not simulation",
    "C08": "tokenising is a pure string function; totality and the quote/unquote law are input-space claims",
    "C10": "the gate is a pure predicate of (quiet, verbosity, flags) evaluated independently per call; an exhaustive table, no history/schedule/fault dimension",
    "C13": "a help page is a pure function of (configuration, terminal width); repeat/after-history rendering is covered by C17",
    "C14": "a rendered table is a pure function of (rows, style, width, indentation); render repeatability and style aliasing are covered by C17",
}


def main():
    checks = []
    missing = []
    for pid in sorted(CLAIMED):
        level, ref, space, text, note = CLAIMED[pid]
        if not os.path.exists(os.path.join(VERIF, "dsim", "props", PROPS[pid] + ".py")):
            missing.append(pid)
            continue
        checks.append({
            "property_id": pid,
            "quick_cmd": "./check %s quick" % pid,
            "thorough_cmd": "./check %s thorough" % pid,
            "evidence_file": "/verif/evidence/%s.json" % pid,
            "replay_cmd_template": "./check %s --replay {path}" % pid,
            "engine": "dsim",
            "level_claimed": {"category": level, "text": text, "design_ref": "DESIGN.md section " + ref},
            "level_note": note,
            "technique": TECH % space,
        })
    na = [{"property_id": k, "reason": v} for k, v in sorted(NA.items())]
    for pid in missing:
        na.append({"property_id": pid, "reason": "claimed in DESIGN.md; harness not built yet at this commit"})
    na.sort(key=lambda d: d["property_id"])
    doc = {
        "version": 1,
        "setup_cmd": "/venv/bin/python -B -c \"import sys; sys.path.insert(0,'/repo/src'); import clikit, pastel, crashtest, pylev; print('dsim setup ok', clikit.__file__)\"",
        "hooks": {
            "guard": "CLIKIT_VERIF",
            "enable": "no source hooks: every seam is a module-attribute swap done by the harness process (progress_bar.time, progress_indicator.time/threading, question.subprocess, crashtest.frame.open, COLUMNS/LINES, and for the terminal-size environment fcntl.ioctl, os.get_terminal_size, os.open/os.close of the controlling terminal, each for the duration of one scenario) or a simulator object passed through clikit's own stream interfaces; CLIKIT_VERIF=1 is set by ./check but read by nothing in /repo",
            "baseline_off_cmd": "/verif/run_baseline.sh",
            "source_commits": [],
            "add_only": True,
        },
        "engines": [{
            "name": "dsim", "path": "/verif/dsim",
            "serves_properties": [c["property_id"] for c in checks],
            "kind_free_text": "deterministic simulator: seeded PRNG streams, virtual clock, baton-passing thread scheduler, simulated streams + terminal emulator, in-memory source store, pristine-process reference, ddmin shrinker, replay files",
        }],
        "checks": checks,
        "not_applicable": na,
        "notes": "Exit codes: 0 held / 1 VIOLATION / 2 HARNESS-ERROR. known_findings.json lists genuine defects recorded rather than repaired (open) and repaired ones (fixed: commits in /repo starting with 'fix:'). See DESIGN.md.",
    }
    with open(os.path.join(VERIF, "MANIFEST.json"), "w") as f:
        json.dump(doc, f, indent=1)
        f.write("\n")
    sys.stderr.write("checks: %s; not built yet: %s\n" % ([c["property_id"] for c in checks], missing))


if __name__ == "__main__":
    main()
