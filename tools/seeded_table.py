"""Regenerates the table of seeded changes in DESIGN.md (between the seeded-table markers) from seeded/*/meta.json."""
import json, os, re
V = os.path.dirname(os.path.dirname(os.path.abspath(__file__)))
rows = []
for d in sorted(x for x in os.listdir(os.path.join(V, "seeded")) if os.path.isfile(os.path.join(V, "seeded", x, "meta.json"))):
    m = json.load(open(os.path.join(V, "seeded", d, "meta.json")))
    caught = "; ".join("**%s**: %s" % (p, ", ".join(sorted({o.split(" runs=")[0].replace("oracle=", "").replace(" where=", "/") for o in c["oracles"]}))[:120] or "-")
                       for p, c in m["caught_by"].items() if c["caught"])
    missed = [p for p, c in m["caught_by"].items() if not c["caught"]]
    rows.append("| `%s` | %s%s |" % (d, caught, (" (not by: %s)" % ", ".join(missed)) if missed else ""))
tbl = "| seeded change | caught by (oracle/where) |\n|---|---|\n" + "\n".join(rows)
p = os.path.join(V, "DESIGN.md")
s = open(p).read()
a, b = s.index("<!-- seeded-table-begin -->"), s.index("<!-- seeded-table-end -->")
s = s[:a] + "<!-- seeded-table-begin -->\n" + tbl + "\n" + s[b:]
open(p, "w").write(s)
print(len(rows), "rows")
