#!/bin/bash
# Runs the thorough tier of the given checks one after the other (default: all) and prints one line each.
cd "$(dirname "$0")/.." || exit 2
export DSIM_OUT=${DSIM_OUT:-$(mktemp -d /tmp/dsim-thorough-XXXX)}
for p in ${1:-C04 C05 C06 C09 C11 C12 C15 C16 C17 C18 C19 C20}; do
  t0=$(date +%s)
  runs=""
  if [ -n "$3" ]; then  # third argument: percentage of the tier's run count (a shorter pass when time is limited)
    runs="--runs $(/venv/bin/python -c "import sys; sys.path.insert(0,'.'); from dsim.runner import load; print(max(1, load('$p').RUNS['thorough'] * $3 // 100))")"
  fi
  out=$(./check $p thorough ${2:+--seed $2} $runs 2>&1); rc=$?
  echo "$p thorough rc=$rc $(( $(date +%s) - t0 ))s $(echo "$out" | grep '^property=' | cut -c1-220)"
  [ $rc -ne 0 ] && echo "$out" | grep -v KNOWN | head -12
  echo "$out" | grep '^WARNING' | head -3
done
[ "$KEEP_OUT" ] || rm -rf "$DSIM_OUT"
