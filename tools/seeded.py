"""Evaluate a seeded breaking change (written independently of /verif) against the checks.

    /venv/bin/python tools/seeded.py verify <candidate_dir> <PROP> [--also C04,C20]
        candidate_dir holds patch.diff and demo.py.  In a scratch worktree of /repo (outside /repo
        and /verif, removed afterwards) this confirms: the patch applies; the pinned suite still
        passes with it; demo.py fails with it and passes without it; then runs `./check PROP quick`
        (and the --also ones) against the patched tree via CLIKIT_SRC and reports which oracles fire.
    /venv/bin/python tools/seeded.py keep <candidate_dir> <PROP> <name> ...   (same, then stores it
        as /verif/seeded/<PROP>-<name>/ with meta.json)
    /venv/bin/python tools/seeded.py recheck            re-runs every kept change against its checks

/repo itself is never modified.
"""
import json
import os
import shutil
import subprocess
import sys
import tempfile

VERIF = os.path.dirname(os.path.dirname(os.path.abspath(__file__)))
PY = "/venv/bin/python"
DESELECT = "tests/io/output_stream/test_stream_output_stream.py::test_supports_utf8_with_encoding"


def sh(cmd, cwd=None, env=None, timeout=1800):
    p = subprocess.run(cmd, cwd=cwd, env=env, stdout=subprocess.PIPE, stderr=subprocess.STDOUT,
                       universal_newlines=True, timeout=timeout)
    return p.returncode, p.stdout


def evaluate(cand, props, runs=None, skip_suite=False):
    out = {"patch": os.path.join(cand, "patch.diff"), "checks": {}}
    wt = tempfile.mkdtemp(prefix="dsim-seeded-")
    os.rmdir(wt)
    try:
        rc, o = sh(["git", "-C", "/repo", "worktree", "add", "--detach", wt, "HEAD"])
        if rc:
            raise SystemExit("worktree add failed: " + o)
        env = dict(os.environ, PYTHONPATH=os.path.join(wt, "src"), PYTHONDONTWRITEBYTECODE="1")
        demo = os.path.join(cand, "demo.py")
        rc, o = sh([PY, "-B", demo], cwd=wt, env=env, timeout=300)
        out["demo_clean_rc"] = rc
        rc, o = sh(["git", "apply", os.path.abspath(out["patch"])], cwd=wt)
        out["applies"] = rc == 0
        if rc:
            out["apply_error"] = o[-400:]
            return out
        rc, o = sh([PY, "-B", demo], cwd=wt, env=env, timeout=300)
        out["demo_patched_rc"] = rc
        out["demo_patched_tail"] = o[-300:]
        if not skip_suite:
            rc, o = sh([PY, "-B", "-m", "pytest", "-q", "-p", "no:cacheprovider", "--deselect", DESELECT], cwd=wt, env=env)
            out["suite_rc"] = rc
            out["suite_tail"] = o.strip().splitlines()[-1] if o.strip() else ""
        for prop in props:
            d = tempfile.mkdtemp(prefix="dsim-seeded-out-")
            cenv = dict(os.environ, CLIKIT_SRC=os.path.join(wt, "src"), DSIM_OUT=d)
            cenv.pop("PYTHONHASHSEED", None)
            cenv.pop("PYTHONPYCACHEPREFIX", None)
            cmd = [os.path.join(VERIF, "check"), prop, "quick"]
            if runs:
                cmd += ["--runs", str(runs)]
            rc, o = sh(cmd, env=cenv)
            fired = [l.strip() for l in o.splitlines() if l.startswith("  oracle=")]
            replays = {}
            for l in o.splitlines():
                if l.startswith("VIOLATION"):
                    path = l.split("replay=")[1].strip()
                    try:
                        replays[os.path.basename(path)] = json.load(open(path))
                    except Exception:
                        pass
            out["checks"][prop] = {"rc": rc, "oracles": [f[:300] for f in fired], "replays": replays,
                                   "tail": o[-600:] if rc == 2 else ""}
            shutil.rmtree(d, ignore_errors=True)
    finally:
        sh(["git", "-C", "/repo", "worktree", "remove", "--force", wt])
        shutil.rmtree(wt, ignore_errors=True)
    return out


def summary(res):
    ok = res.get("applies") and res.get("demo_clean_rc") == 0 and res.get("demo_patched_rc", 0) != 0 and res.get("suite_rc", 0) == 0
    s = "applies=%s demo(clean)=%s demo(patched)=%s suite=%s -> %s" % (
        res.get("applies"), res.get("demo_clean_rc"), res.get("demo_patched_rc"), res.get("suite_tail", res.get("suite_rc")),
        "VALID" if ok else "INVALID")
    for p, c in res.get("checks", {}).items():
        s += "\n   check %s rc=%s %s" % (p, c["rc"], "; ".join(x[:140] for x in c["oracles"][:4]) or c["tail"][-200:])
    return ok, s


def main(argv):
    if argv[0] in ("verify", "keep"):
        cand, prop = argv[1], argv[2]
        rest = argv[3:]
        name = None
        if argv[0] == "keep":
            name, rest = rest[0], rest[1:]
        also = []
        runs = None
        for i, a in enumerate(rest):
            if a == "--also":
                also = rest[i + 1].split(",")
            if a == "--runs":
                runs = int(rest[i + 1])
        res = evaluate(cand, [prop] + also, runs)
        ok, s = summary(res)
        print(s)
        if argv[0] == "keep" and ok:
            dst = os.path.join(VERIF, "seeded", "%s-%s" % (prop, name))
            os.makedirs(dst, exist_ok=True)
            for f in ("patch.diff", "demo.py", "notes.md"):
                if os.path.exists(os.path.join(cand, f)):
                    shutil.copy(os.path.join(cand, f), os.path.join(dst, f))
            caught = {p: c["rc"] == 1 for p, c in res["checks"].items()}
            meta = {
                "property": prop, "name": name,
                "needs": open(os.path.join(cand, "notes.md")).read()[:1500] if os.path.exists(os.path.join(cand, "notes.md")) else "",
                "verified": {"patch_applies": True, "suite_with_patch": res.get("suite_tail"),
                             "demo_on_clean_tree_rc": res["demo_clean_rc"], "demo_with_patch_rc": res["demo_patched_rc"]},
                "ran": ["git worktree add <scratch>; git apply patch.diff; pytest (pinned suite); demo.py with and without the patch",
                        "CLIKIT_SRC=<scratch>/src ./check %s quick" % prop],
                "caught_by": {p: {"caught": c["rc"] == 1, "oracles": c["oracles"][:6]} for p, c in res["checks"].items()},
            }
            json.dump(meta, open(os.path.join(dst, "meta.json"), "w"), indent=1)
            # minimised replay files of the detection, for the record
            for p, c in res["checks"].items():
                for fn, doc in list(c["replays"].items())[:2]:
                    json.dump(doc, open(os.path.join(dst, "replay-%s-%s" % (p, fn)), "w"), indent=1, sort_keys=True)
            print("kept as", dst, "caught:", caught)
        return 0 if ok else 1
    if argv[0] == "benign":
        # a behaviour-preserving refactoring: the suite must pass and the checks must stay SILENT
        cand, prop, name = argv[1], argv[2], argv[3]
        also = argv[5].split(",") if len(argv) > 5 and argv[4] == "--also" else []
        open(os.path.join(cand, "demo.py"), "w").write("import clikit\n")  # no demo for a refactoring
        res = evaluate(cand, [prop] + also)
        silent = all(c["rc"] == 0 for c in res["checks"].values())
        print("applies=%s suite=%s -> checks %s" % (res.get("applies"), res.get("suite_tail"), {p: c["rc"] for p, c in res["checks"].items()}))
        for p_, c in res["checks"].items():
            if c["rc"] != 0:
                print("   ALARM %s: %s %s" % (p_, "; ".join(x[:200] for x in c["oracles"][:5]), c["tail"][-300:]))
        if res.get("applies") and res.get("suite_rc") == 0:
            dst = os.path.join(VERIF, "seeded_benign", "%s-%s" % (prop, name))
            os.makedirs(dst, exist_ok=True)
            for f in ("patch.diff", "notes.md"):
                if os.path.exists(os.path.join(cand, f)):
                    shutil.copy(os.path.join(cand, f), os.path.join(dst, f))
            meta = {"property": prop, "name": name, "kind": "behaviour-preserving refactoring: checks must stay silent",
                    "suite_with_patch": res.get("suite_tail"),
                    "checks": {p_: {"rc": c["rc"], "oracles": c["oracles"][:6]} for p_, c in res["checks"].items()},
                    "silent": silent}
            json.dump(meta, open(os.path.join(dst, "meta.json"), "w"), indent=1)
        return 0 if silent else 1
    if argv[0] == "recheck":
        # recheck [substring] [--update]: --update records the new outcome in meta.json and keeps the
        # outcome of the first evaluation (before any strengthening) under "first_evaluation"
        base = os.path.join(VERIF, "seeded")
        bad = 0
        update = "--update" in argv
        sub = [a for a in argv[1:] if not a.startswith("--")]
        for d in sorted(os.listdir(base)):
            m = os.path.join(base, d, "meta.json")
            if not os.path.exists(m) or (sub and not any(x in d for x in sub)):
                continue
            meta = json.load(open(m))
            props = list(meta["caught_by"].keys())
            res = evaluate(os.path.join(base, d), props, skip_suite=True)
            if not res.get("applies"):
                print("%-40s PATCH DOES NOT APPLY to HEAD: %s" % (d, res.get("apply_error", "")[-120:].replace("\n", " ")))
                bad += 1
                continue
            line = []
            if res.get("demo_patched_rc") == 0:
                line.append("DEMO-PASSES-WITH-PATCH")
            for p in props:
                now = res["checks"][p]["rc"] == 1
                was = meta["caught_by"][p]["caught"]
                line.append("%s:%s%s" % (p, "caught" if now else "MISSED(rc=%s)" % res["checks"][p]["rc"], "" if now == was else " (was %s)" % was))
                if was and not now:
                    bad += 1
            if update:
                meta.setdefault("first_evaluation", {p: meta["caught_by"][p]["caught"] for p in props})
                meta["caught_by"] = {p: {"caught": c["rc"] == 1, "oracles": c["oracles"][:6]} for p, c in res["checks"].items()}
                meta["verified"]["demo_with_patch_rc"] = res.get("demo_patched_rc")
                json.dump(meta, open(m, "w"), indent=1)
            print("%-40s %s" % (d, " ".join(line)))
            sys.stdout.flush()
        return 1 if bad else 0
    if argv[0] == "recheck-benign":
        # every behaviour-preserving refactoring again: the checks must stay silent (rc 0)
        base = os.path.join(VERIF, "seeded_benign")
        bad = 0
        sub = [a for a in argv[1:] if not a.startswith("--")]
        for d in sorted(os.listdir(base)):
            m = os.path.join(base, d, "meta.json")
            if not os.path.exists(m) or (sub and not any(x in d for x in sub)):
                continue
            meta = json.load(open(m))
            if "checks" not in meta:
                print("%-28s evaluated at its own base commit (%s): not re-run" % (d, meta.get("applies_to", "?")))
                continue
            props = list(meta["checks"].keys())
            open(os.path.join(base, d, "demo.py"), "w").write("import clikit\n")
            try:
                res = evaluate(os.path.join(base, d), props, skip_suite=True)
            finally:
                os.remove(os.path.join(base, d, "demo.py"))
            if not res.get("applies"):
                print("%-28s patch does not apply to HEAD (evaluated at its own base earlier): %s" % (d, meta.get("note", "")))
                continue
            line = []
            for p_ in props:
                rc = res["checks"][p_]["rc"]
                line.append("%s:%s" % (p_, "silent" if rc == 0 else "ALARM(rc=%s) %s" % (rc, "; ".join(res["checks"][p_]["oracles"][:3])[:300] or res["checks"][p_]["tail"][-200:])))
                if rc != 0:
                    bad += 1
            print("%-28s %s" % (d, " ".join(line)))
            sys.stdout.flush()
        return 1 if bad else 0
    print(__doc__)
    return 2


if __name__ == "__main__":
    sys.exit(main(sys.argv[1:]))
