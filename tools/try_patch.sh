#!/bin/bash
# tools/try_patch.sh <patch.diff> <PROP> [runs]  - run one quick check against a scratch copy of /repo/src with the patch applied
set -e
P=$(readlink -f "$1"); PROP=$2; RUNS=$3
D=$(mktemp -d /tmp/dsim-try-XXXXXX)
trap 'rm -rf "$D"' EXIT
mkdir -p "$D/repo" "$D/out"
(cd /repo && git archive HEAD src) | tar -x -C "$D/repo"
(cd "$D/repo" && patch -s -p1 < "$P")
cd "$(dirname "$0")/.."
CLIKIT_SRC="$D/repo/src" DSIM_OUT="$D/out" ./check "$PROP" quick ${RUNS:+--runs $RUNS} 2>&1 | grep -v "^KNOWN" | cut -c1-330 | tail -8
